"""C06 - server-initiated acks: callback at most once, only for the right client and id."""
from gen import server_hist
from props import srvprop


def nontrivial(cfg, ops, results):
    cbs = sum(1 for o in ops if o[0] == 'emit' and o[7] is not None)
    acks = sum(1 for o in ops if o[0] in ('msg', 'msg_nested') and isinstance(o[2], str) and o[2][:1] in '36')
    return cbs >= 1 and acks >= 1


def prop_sig(cfg, ops, mode):
    # structural class of the failing history: an ACK carrying id 0 while a callback slot exists
    for o in ops:
        if o[0] in ('msg', 'msg_nested') and isinstance(o[2], str) and o[2][:1] == '3':
            body = o[2][1:]
            if body.startswith('/'):
                body = body[body.find(',') + 1:] if ',' in body else ''
            digits = ''
            for ch in body:
                if ch.isdigit():
                    digits += ch
                else:
                    break
            if digits and int(digits) == 0:
                return 'ack-id-zero-pops-counter'
    return 'c06-%s-property' % mode


def run(chk):
    k = server_hist.Knobs(n_ops=34, refuse=0.05, actions=0.0, nested_ack=0.3)
    k.w.update({'emit_cb': 7, 'ack': 8, 'binary': 1.0, 'connect': 4, 'emit': 0.5, 'enter': 0.3, 'leave': 0.1,
                'close_room': 0.1, 'rooms': 0.1, 'session': 0.1, 'junk': 0.2, 'event': 0.5, 'client_disconnect': 1.5,
                'disconnect': 1.2, 'close': 1.0})
    chk.assumptions = ['callbacks on emits addressed to more than one client are excluded (documented as unsupported)',
                       'call() is emit-with-callback plus an event wait; its result shaping is covered by C06_call_result']
    srvprop.run(chk, 'c06', k, 120, 1500,
                'histories of emits with callbacks to individual clients on several namespaces interleaved with ACK / '
                'BINARY_ACK packets from any client with ids 0,1,2,3,5,None (correct, duplicate, never issued, issued to '
                'another client / namespace), with disconnects and reconnects; non-trivial = at least one callback emit and '
                'one ACK; distinct by per-operation effect signature', nontrivial, prop_sig)


def replay(chk, data):
    return srvprop.replay(chk, data, 'c06')
