"""C06 - server-initiated acks: callback at most once, only for the right client and id."""
from gen import server_hist
from props import srvprop


def nontrivial(cfg, ops, results):
    cbs = sum(1 for o in ops if o[0] == 'emit' and o[7] is not None)
    acks = sum(1 for o in ops if o[0] in ('msg', 'msg_nested') and isinstance(o[2], str) and o[2][:1] in '36')
    return cbs >= 1 and acks >= 1


def prop_sig(cfg, ops, mode):
    # structural class of the failing history: an ACK carrying id 0 while a callback slot exists
    for o in ops:
        if o[0] in ('msg', 'msg_nested') and isinstance(o[2], str) and o[2][:1] == '3':
            body = o[2][1:]
            if body.startswith('/'):
                body = body[body.find(',') + 1:] if ',' in body else ''
            digits = ''
            for ch in body:
                if ch.isdigit():
                    digits += ch
                else:
                    break
            if digits and int(digits) == 0:
                return 'ack-id-zero-pops-counter'
    return 'c06-%s-property' % mode


def run(chk):
    k = server_hist.Knobs(n_ops=34, refuse=0.05, actions=0.0, nested_ack=0.3)
    k.w.update({'emit_cb': 7, 'ack': 8, 'binary': 1.0, 'connect': 4, 'emit': 0.5, 'enter': 0.3, 'leave': 0.1,
                'close_room': 0.1, 'rooms': 0.1, 'session': 0.1, 'junk': 0.2, 'event': 0.5, 'client_disconnect': 1.5,
                'disconnect': 1.2, 'close': 1.0})
    chk.assumptions = ['callbacks on emits addressed to more than one client are excluded (documented as unsupported)',
                       'call() is emit-with-callback plus an event wait; its result shaping is covered by C06_call_result']
    srvprop.run(chk, 'c06', k, 120, 1500,
                'histories of emits with callbacks to individual clients on several namespaces interleaved with ACK / '
                'BINARY_ACK packets from any client with ids 0,1,2,3,5,None (correct, duplicate, never issued, issued to '
                'another client / namespace), with disconnects and reconnects; non-trivial = at least one callback emit and '
                'one ACK; distinct by per-operation effect signature', nontrivial, prop_sig)


    if not chk.broken:
        call_cases(chk)


def call_cases(chk):
    """Server.call() / AsyncServer.call(): emit with an internal callback, wait, shape the result.
    The wait primitive is replaced by a fake event whose wait() delivers the scripted ACK (or nothing)."""
    import asyncio
    import json
    from vt import coqio
    from vt.coqio import pv, clist
    from drivers import srv
    cfg = {'handlers': {'/': {'connect': 1}, '/chat': {'connect': 2}}, 'ns_handlers': {},
           'behav': {1: {'arity': 2, 'actions': [], 'outcome': ('ret', None)},
                     2: {'arity': 2, 'actions': [], 'outcome': ('ret', None)}},
           'namespaces': ['/', '/chat'], 'always_connect': False, 'serializer': 'default'}
    acks = [[], [0], [False], [''], [[]], [{}], [None], [0.0], [1], ['x'], [[1, 2]], [{'a': 1}], [0, 0], [1, 'b'], [None, None],
            [b'\x01'], ['a', b'b', 3], None, None]
    rng = chk.rng
    cases, meta = [], []

    async def one(mode, ns, args):
        d = srv.ServerDriver(cfg, mode)
        sio = d.sio
        sio.async_handlers = True          # call() refuses to run otherwise; only ACK packets arrive meanwhile
        await d.op(('eio_connect', 'e0', {}))
        await d.op(('msg', 'e0', '0' if ns == '/' else '0' + ns + ','))
        sid = 'S0'

        def ack_payloads():
            ids = [k for k in sio.manager.callbacks.get(sid, {}) if k != 0]
            if args is None or not ids:
                return []
            data, atts = [], []
            for a in args:
                if isinstance(a, bytes):
                    data.append({'_placeholder': True, 'num': len(atts)})
                    atts.append(a)
                else:
                    data.append(a)
            head = ('6%d-' % len(atts) if atts else '3') + ('' if ns == '/' else ns + ',') + str(max(ids)) + \
                json.dumps(data, separators=(',', ':'))
            return [head] + atts

        if mode == 'sync':
            class Ev:
                flag = False

                def set(self):
                    self.flag = True

                def wait(self, timeout=None):
                    for p in ack_payloads():
                        d.sockets['e0'].receive(d.eio_packet.Packet(d.eio_packet.MESSAGE, p))
                    return self.flag
            sio.eio.create_event = lambda *a, **k: Ev()
            try:
                return True, sio.call('q', 'data', to=sid, namespace=ns, timeout=rng.choice([0, 1, 60]))
            except BaseException as e:
                return False, coqio.exn_name(e)
        else:
            class AEv:
                flag = False

                def set(self):
                    self.flag = True

                async def wait(self):
                    for p in ack_payloads():
                        await d.sockets['e0'].receive(d.eio_packet.Packet(d.eio_packet.MESSAGE, p))
                    if not self.flag:
                        raise asyncio.TimeoutError()
                    return True
            sio.eio.create_event = lambda *a, **k: AEv()
            try:
                return True, await sio.call('q', 'data', to=sid, namespace=ns, timeout=rng.choice([1, 60]))
            except BaseException as e:
                return False, coqio.exn_name(e)

    for mode in ('sync', 'async'):
        for ns in ('/', '/chat'):
            for args in acks:
                ok, res = asyncio.run(one(mode, ns, args))
                try:
                    obs = '(Ok %s)' % pv(res) if ok else '(Err %s)' % res
                except TypeError:
                    obs = '(Err OtherError)'
                cases.append('(%s, %s)' % ('None' if args is None else '(Some %s)' % clist([pv(a) for a in args]), obs))
                meta.append((mode, ns, args, res))
                chk.count(1, ('call', mode, ns, repr(args)), None)
                chk.dist('call() ack arity %s' % ('none' if args is None else len(args)))
    codes, errors = coqio.eval_cases('c06_call', 'From VT Require Import Check.C06CallCheck.', '', 'call_case', cases,
                                     'c06_call_eval', shard=200)
    for e in errors:
        chk.broken_obligation('case evaluation failed: ' + e)
    for idx in sorted(codes):
        mode, ns, args, res = meta[idx]
        chk.violation('call-result-shaping-%s' % mode,
                      '%s server: call() acknowledged with %r returned / raised %r' % (mode, args, res),
                      {'mode': mode, 'namespace': ns, 'ack_args': repr(args), 'observed': repr(res)})
        break


def replay(chk, data):
    if 'ack_args' in data.get('replay', {}):
        print(data['replay'])
        return 1
    return srvprop.replay(chk, data, 'c06')
