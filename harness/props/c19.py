"""C19 - SimpleClient: events are received once each, in arrival order.

Tie: the REAL socketio.SimpleClient (threads) and socketio.AsyncSimpleClient (asyncio) are run
under the deterministic schedulers of drivers/sched_simple.py.  Every run is printed as a
Gallina `c19case` (scenario, schedule, observed label trace, final status/buffer/flags); inside
Coq the model of coq/Simple/SimpleClient.v is run on the same scenario and schedule
(correspondence, bit 1) and the property checker of coq/Check/C19Check.v is evaluated on what
the implementation did (bit 2, higher bits = clause).

Second class of cases (`c19tcase`, "transport"): the simple clients over the REAL Client / AsyncClient
over a fake engine.io transport (drivers/sched_simple_eio.py).  The producer script is a history of
what the server / transport does (events, loss, failed / refused / successful reconnection attempts,
CLOSE, DISCONNECT); Coq translates it with `dispatch` (coq/Simple/SimpleTransport.v) into the handler
script the model runs (correspondence) and judges that what receive() returned is exactly what the
server sent (clauses 1024 / 2048), besides all the clauses above."""
import functools
import os

from vt import coqio
from vt.coqio import clist, cbool
from drivers import sched_simple as S
from drivers import sched_simple_eio as X

IMPORTS = 'From VT Require Import Check.C19Check.'
DEFS = 'Local Open Scope nat_scope.\nLocal Open Scope string_scope.'

SIGNATURES = [
    (4, 'fifo-order-or-loss', 'returned events ++ buffered events differ from the events appended'),
    (8, 'timeout-while-buffered-input-wait',
     'receive() raised TimeoutError from input_event.wait() while a completely handed-off event was buffered'),
    (16, 'timeout-while-buffered-connected-wait',
     'receive() raised TimeoutError from connected_event.wait() while a completely handed-off event was buffered'),
    (32, 'disconnected-before-final', 'DisconnectedError raised although no final disconnect had started'),
    (64, 'disconnected-while-buffered',
     'receive() raised DisconnectedError while an event that arrived before the end of the connection was still buffered'),
    (128, 'receive-blocked-after-final-disconnect',
     'receive() is blocked for ever in input_event.wait() although the connection has ended for good'),
    (256, 'unexpected-exception', 'a call ended in an exception other than TimeoutError / DisconnectedError'),
    (512, 'blocked-while-event-buffered',
     'receive() is blocked for ever although a completely handed-off event is in the buffer (event held back)'),
    (1024, 'received-differs-from-server-sent',
     'the events returned by receive() followed by the buffered ones are not the events the server sent '
     '(each once, in order, nothing else)'),
    (4096, 'held-back-in-connected-wait-during-outage',
     'receive(timeout=None) is blocked in connected_event.wait() (not in input_event.wait()) while the underlying '
     'connection is down but not ended for good, with a completely handed-off event in input_buffer (the event '
     'arrived and the transport dropped between receive()\'s emptiness test and its connected wait; threads only)'),
    (2048, 'lifecycle-notification-received',
     'receive() returned (or the buffer holds) a lifecycle notification of the underlying Client '
     '(connect / connect_error / disconnect / __disconnect_final) that the server never sent as an event'),
]

# ---------------------------------------------------------------------------------------
# scenario language
# ---------------------------------------------------------------------------------------
D, F, CN = ('Disconnect',), ('Final',), ('Connect',)
NS0, NS1 = ('Ns', False), ('Ns', True)


def E(i):
    return ('Event', 'e%d' % i, [i])


LOSE = [D, NS0]
RECONNECT = [NS1, CN]
END = [D, F, NS0]
GIVEUP = [F]
R0, R1, EM, CL = ('Recv', False), ('Recv', True), ('Emit',), ('Call',)


def hop_term(op):
    k = op[0]
    if k == 'Event':
        return '(ev "%s" %d)' % (op[1], op[2][0])
    if k == 'Ns':
        return '(NsSet %s)' % cbool(op[1])
    return {'Connect': 'HConnect', 'Disconnect': 'HDisconnect', 'Final': 'HFinal'}[k]


def cop_term(op):
    return '(Recv %s)' % cbool(op[1]) if op[0] == 'Recv' else 'Emit'


def item_term(v):
    if isinstance(v, list) and len(v) == 2 and isinstance(v[0], str) and v[0].isalnum() \
            and isinstance(v[1], int) and not isinstance(v[1], bool):
        return '(it "%s" %d)' % (v[0], v[1])
    return coqio.pv(v)


def lbl_term(l):
    k = l[0]
    if k == 'BufTest':
        return '(LBufTest %s)' % cbool(l[1])
    if k == 'WaitEnter':
        return '(LWaitEnter %s %s)' % (l[1], cbool(l[2]))
    if k in ('Wake', 'Timeout', 'Clear', 'Set'):
        return '(L%s %s)' % (k, l[1])
    if k in ('ConnRead', 'ConnWrite', 'Ns', 'Send'):
        return '(L%s %s)' % (k, cbool(l[1]))
    if k == 'Pop':
        return 'LPop'
    if k == 'Sent':
        return 'LSent'
    if k == 'Done':
        return 'LDone'
    if k in ('Append', 'Ret'):
        try:
            return '(L%s %s)' % (k, item_term(l[1]))
        except TypeError:
            return '(LOther 99)'
    if k == 'Raise':
        return '(LRaise %s)' % {'TimeoutError': 'Tmo', 'DisconnectedError': 'Dis'}.get(l[1], l[1])
    if k == 'Other':
        return '(LOther %d)' % l[1]
    raise ValueError(l)


def status_term(s):
    if isinstance(s, tuple):
        return '(SBlocked %s)' % cbool(s[1])
    return {'done': 'SDone', 'ready': 'SReady', 'notified': 'SNotified'}.get(s, 'SReady')


def case_term(variant, atomic, P, C, r):
    fixed, recheck = variant
    try:
        buf = clist([item_term(x) for x in r.buf])
    except TypeError:
        buf = '[PObj 0%N]'
    return '(Case %s %s %s %s %s %s %s %s %s %s %s %s %s %s)' % (
        cbool(fixed), cbool(recheck), cbool(atomic),
        clist([clist([hop_term(o) for o in scr]) for scr in P]),
        clist([cop_term(o) for o in C]),
        clist([str(c) for c in r.schedule]),
        clist([clist([lbl_term(l) for l in step]) for step in r.trace]),
        status_term(r.status), cbool(r.pdone), buf,
        cbool(r.flags[0]), cbool(r.flags[1]), cbool(r.flags[2]), cbool(r.flags[3]))


# ---------------------------------------------------------------------------------------
# transport-level scenarios: the real Client / AsyncClient below the simple client
# ---------------------------------------------------------------------------------------
TL, TC, TD = ('TLose',), ('TClose',), ('TDisc',)
AF, AR, AK = ('TAttempt', 'fail'), ('TAttempt', 'refused'), ('TAttempt', 'ok')


def TE(i):
    return ('TEvent', 'e%d' % i, [i])


def TB(i, n=1):
    """Event b<i> with n bytes arguments (n attachment frames) and one int argument."""
    return ('TBinHead', 'b%d' % i, [bytes([i, k]) for k in range(n)] + [i])


TA = ('TBinAtt',)


def top_term(op):
    k = op[0]
    if k == 'TEvent':
        return '(tev "%s" %d)' % (op[1], op[2][0])
    if k == 'TBinHead':
        return '(TBinHead %s %s)' % (coqio.pv(op[1]), clist([coqio.pv(x) for x in op[2]]))
    if k == 'TBinAtt':
        return 'TBinAtt'
    if k == 'TAttempt':
        return '(TAttempt %s)' % {'fail': 'AFail', 'refused': 'ARefused', 'ok': 'AOk'}[op[1]]
    return {'TLose': 'TLose', 'TClose': 'TClose', 'TDisc': 'TDisc'}[k]


def tcase_term(variant, atomic, params, T, C, r):
    fixed, recheck = variant
    try:
        buf = clist([item_term(x) for x in r.buf])
    except TypeError:
        buf = '[PObj 0%N]'
    return '(TCase %s %s %s %s %d %s %s %s %s %s %s %s %s %s %s %s)' % (
        cbool(fixed), cbool(recheck), cbool(atomic), cbool(params[0]), params[1],
        clist([top_term(o) for o in T]),
        clist([cop_term(o) for o in C]),
        clist([str(c) for c in r.schedule]),
        clist([clist([lbl_term(l) for l in step]) for step in r.trace]),
        status_term(r.status), cbool(r.pdone), buf,
        cbool(r.flags[0]), cbool(r.flags[1]), cbool(r.flags[2]), cbool(r.flags[3]))


def gen_history(rng, n):
    """A random transport history (mostly well phased, with some events that cannot do anything in
    the phase they occur in) and the Client parameters; returns (params, T, number of events sent)."""
    reconn = rng.random() < 0.85
    attempts = rng.choice([0, 0, 0, 2, 3])
    T, phase, failed, nev, sent = [], 'up', 0, 0, 0
    missing = 0                 # attachment frames of a binary event still to come on this connection
    for _ in range(n):
        x = rng.random()
        if phase == 'up' and missing and x < 0.6:
            op = TA
            missing -= 1
            sent += 0 if missing else 1
        elif phase == 'up':
            if x < 0.28 or (missing and x < 0.64):
                op = TE(nev)                            # (skipped while a binary event is incomplete)
                nev += 1
                sent += 0 if missing else 1
            elif x < 0.40:
                k = rng.choice([1, 1, 2])
                op = TB(nev, k)
                nev += 1
                missing = missing or k
            elif x < 0.75:
                op = TL
                phase, failed, missing = ('down', 0, 0) if reconn else ('over', 0, 0)
            elif x < 0.82:
                op, phase, missing = TC, 'over', 0
            elif x < 0.89:
                op = TD
                if not missing:
                    phase = 'over'
            else:
                op = rng.choice([AF, AR, AK])           # no reconnect task is waiting: nothing happens
        elif phase == 'down':
            if x < 0.30:
                op, phase = AK, 'up'
            elif x < 0.88:
                op = AF if x < 0.59 else AR
                failed += 1
                if attempts and failed >= attempts:
                    phase = 'over'
            else:
                op = rng.choice([TE(nev), TL, TC, TD, TA])  # the transport is down: nothing happens
                if op[0] == 'TEvent':
                    nev += 1
        else:
            if x < 0.5:
                break
            op = rng.choice([TE(nev), TL, AK, AF, TC])  # the connection is over: nothing happens
            if op[0] == 'TEvent':
                nev += 1
        T.append(op)
    return (reconn, attempts), T, sent


def transport_scenarios(rng, thorough):
    """(name, (reconnection, attempts), T, C, exhaustive-for-threads?)."""
    out = [
        ('t reconnect after failures', (True, 0), [TE(0), TL, AF, AR, AK, TE(1)], [R1, R1, R1], False),
        ('t failures while waiting', (True, 0), [TL, AF, AR, AF, AK, TE(0)], [R0], True),
        ('t event then outage', (True, 0), [TE(0), TL, AF], [R0], True),
        # binary events: header frame + attachment frames, the transport can fail between them
        ('t binary lost between frames', (True, 0), [TB(0), TL, AK, TE(1)], [R1, R1], False),
        ('t binary complete', (True, 0), [TB(0), TA, TE(1), TL, AF, AK, TB(2, 2), TA, TA], [R1, R1, R1], False),
        ('t binary half then outage', (True, 2), [TB(0, 2), TA, TL, AF, AK, TA, TE(1), TB(2), TC, TA], [R0, R1], False),
        ('t giveup', (True, 2), [TE(0), TL, AF, AR], [R1, R0], False),
        ('t giveup1 refused', (True, 1), [TL, AR, AK, TE(0)], [R0], True),
        ('t close', (True, 0), [TE(0), TC], [R0, R0], False),
        ('t disc', (True, 0), [TE(0), TD, TE(1)], [R1, R0], False),
        ('t loss no reconnection', (False, 0), [TE(0), TL, AK, TE(1)], [R0, R0], False),
        ('t emit over reconnect', (True, 0), [TL, AF, AK], [EM, R1], False),
        ('t emit giveup', (True, 1), [TL, AF], [EM], True),
        ('t two losses', (True, 3), [TL, AF, AK, TE(0), TL, AR, AF, AK, TE(1), TC], [R0, R0, R1], False),
        ('t ill phased', (True, 0), [TE(0), AK, TL, TE(1), TL, AF, TC, AK, TE(2)], [R1, R1, R1], False),
    ]
    for k in range(14 if thorough else 6):
        params, T, sent = gen_history(rng, rng.randint(4, 9))
        C = [rng.choice([R0, R1, R1]) for _ in range(min(3, sent + rng.randint(0, 1)))] or [R1]
        if rng.random() < 0.3:
            C.insert(rng.randrange(len(C) + 1), EM)
        out.append(('t random %d' % k, params, T, C, False))
    return out


# ---------------------------------------------------------------------------------------
# scenarios
# ---------------------------------------------------------------------------------------
def scenarios(thorough):
    """(name, producer scripts, consumer script, exhaustive-in-quick-tier?)."""
    out = []
    # <= 2 arrivals x <= 2 receives x 1 final loss, every timeout combination
    for na in (0, 1, 2):
        for C in ([R0], [R1], [R0, R0], [R1, R0], [R0, R1], [R1, R1]):
            small = (na + len(C) <= 2)
            out.append(('end a%d %s' % (na, _cname(C)), [[E(i) for i in range(na)] + END], C, small))
    # loss with successful reconnection, arrivals before and after
    out.append(('reconnect', [[E(0)] + LOSE + RECONNECT + [E(1)]], [R1, R0], False))
    out.append(('reconnect0', [LOSE + RECONNECT + [E(0)]], [R0], True))
    out.append(('reconnect end', [LOSE + RECONNECT + [E(0)] + END], [R0, R1], False))
    # loss, reconnection given up
    out.append(('giveup', [[E(0)] + LOSE + GIVEUP], [R1, R0], False))
    out.append(('giveup0', [LOSE + GIVEUP], [R0, R0], True))
    # no loss at all: bursts, arrivals while not waiting
    out.append(('burst', [[E(0), E(1)]], [R1, R1, R1], False))
    # emit()/call(): waits out a reconnection, DisconnectedError after the end
    out.append(('emit reconnect', [LOSE + RECONNECT], [EM, R1], False))
    out.append(('emit end', [END], [EM, EM], True))
    out.append(('call giveup', [LOSE + GIVEUP], [CL], True))
    # handlers on two threads / tasks (Client calls the disconnect handler from whichever
    # thread noticed the loss): outside `lifecycle`, inside what the theorems quantify over
    out.append(('two producers', [[E(0)], [E(1)]], [R0, R1], False))
    out.append(('event vs end', [[E(0), E(1)], [D, F]], [R0, R1], False))
    if thorough:
        for C in ([R0], [R1], [R1, R0], [R0, R1]):
            out.append(('end a3 %s' % _cname(C), [[E(0), E(1), E(2)] + END], C, False))
        out.append(('reconnect2', [[E(0)] + LOSE + RECONNECT + [E(1)] + END], [R1, R0], False))
    return out


def _cname(C):
    return ''.join({'Recv': 'r', 'Emit': 'e', 'Call': 'c'}[o[0]] + ('t' if len(o) > 1 and o[1] else '') for o in C)


# thread scenarios small enough to enumerate completely in the thorough tier (3 k - 35 k schedules each)
EXHAUSTIVE_IN_THOROUGH = {'end a1 rr', 'end a1 rtr', 'end a1 rrt', 'end a1 rtrt', 'end a2 r', 'end a2 rt',
                          'end a2 rr', 'end a2 rtr', 'end a2 rrt', 'end a2 rtrt', 'giveup', 'burst',
                          'emit reconnect', 'two producers'}

# the model variant the check runs: the source as it stands after fix commits 748d97f
# (final_wakes_input) and fee3be8 (recheck_before_raise) = `repaired_all` of SimpleClient.v
VARIANT = (True, True)

WITNESSES = [
    # (name, atomic, P, C, schedule, clause that failed before the fix commits): the schedules on which
    # the source failed before 748d97f / fee3be8 (documented by the `_refuted` theorems about `pinned`).
    # They are replayed as regression cases: on the repaired source none of them may fail any clause.
    ('timeout_connected_wait_refuted', False, [[('Event', 'a', [1])] + LOSE], [R1], [0, 2, 2, 2, 0, 1], 16),
    ('disconnected_while_buffered_refuted', False, [[('Event', 'a', [1])] + END], [R0], [0, 2, 2, 2, 2, 2, 0, 0], 64),
    ('disconnected_while_buffered_async_refuted', True,
     [LOSE + RECONNECT + [('Event', 'a', [1])] + END], [R0], [2, 2, 0, 2, 2, 2, 2, 2, 0], 64),
    ('no_hang_refuted(threads)', False, [END], [R0], [0, 0, 0, 0, 2, 2, 2, 2], 128),
    ('no_hang_refuted(asyncio)', True, [END], [R0], [0, 2, 2, 2], 128),
]


def probe_variant(runner):
    """Which source text is running?  (compared with VARIANT; a source that lost a repair is reported)
    final_wakes_input: the real __disconnect_final handler sets input_event;
    recheck_before_raise: after a timeout of connected_event.wait() receive() looks at the
    buffer again before raising."""
    r = runner([[F]], [], [2, 2, 2, 2])
    fixed = any(l == ('Set', 'IE') for step in r.trace for l in step)
    r = runner([LOSE], [R1], [2, 2, 0, 0, 1, 0])
    flat = [l for step in r.trace for l in step]
    recheck = any(a == ('Timeout', 'CE') and b[0] == 'BufTest' for a, b in zip(flat, flat[1:]))
    return fixed, recheck


def switches_in_window(r):
    """Number of producer steps taken while a call of the application is in progress."""
    n, inside = 0, False
    for ch, labels in zip(r.schedule, r.trace):
        if not labels:
            continue
        if ch in (0, 1):
            inside = not any(l[0] in ('Ret', 'Raise', 'Sent') for l in labels)
        elif inside:
            n += 1
    return n


# ---------------------------------------------------------------------------------------
class TooManyErrors(Exception):
    pass


def _explore_scenario(task):
    """Worker (own process): every run of one scenario, already printed as Gallina terms."""
    name, P, C, small, thorough, seed, fixed = task
    from vt import common
    rng = common.Rng(seed).sub('C19/' + name)
    out, errs = [], []

    def add(atomic, r, kind):
        sw = switches_in_window(r)
        sample = None
        if sw and not any(o[7] for o in out):
            sample = {'mode': 'asyncio' if atomic else 'threads', 'scenario': name, 'schedule': list(r.schedule),
                      'trace': [[' '.join(map(str, l)) for l in st] for st in r.trace][:14], 'status': str(r.status)}
        out.append((atomic, kind, case_term(fixed[atomic], atomic, P, C, r), list(r.schedule), r.status,
                    r.error, sw, sample))
        if r.error:
            errs.append(r.error)
            if len(errs) >= 8:
                raise TooManyErrors()

    try:
        # asyncio: always exhaustive
        for r in S.explore(S.run_async, P, C, limit=200000):
            add(True, r, 'exhaustive')
        # threads: exhaustive when affordable; otherwise every schedule with a bounded number of
        # preemptive context switches, plus random walks over the unbounded space
        if small or (thorough and name in EXHAUSTIVE_IN_THOROUGH):
            for r in S.explore(S.run_threads, P, C, limit=120000):
                add(False, r, 'exhaustive')
        else:
            k = 4 if thorough else 3
            for r in S.explore(S.run_threads, P, C, limit=30000, max_preempt=k):
                add(False, r, 'preemptions<=%d' % k)
            for _ in range(1500 if thorough else 120):
                add(False, S.random_walk(S.run_threads, P, C, rng), 'random walk')
        for _ in range(10):
            add(False, S.random_walk(S.run_threads, P, C, rng, noop_rate=0.25), 'walk with no-ops')
            add(True, S.random_walk(S.run_async, P, C, rng, noop_rate=0.25), 'walk with no-ops')
    except TooManyErrors:
        pass
    S.close_loop()
    return out


def _explore_transport(task):
    """Worker (own process): runs of one transport scenario on the real Client / AsyncClient stack."""
    _, name, params, T, C, small, thorough, seed, fixed = task
    from vt import common
    rng = common.Rng(seed).sub('C19/' + name)
    stack = X.make_stack(*params)
    run_t = functools.partial(S.run_threads, stack=stack)
    run_a = functools.partial(S.run_async, stack=stack)
    P = [T]
    out, errs = [], []

    def add(atomic, r, kind):
        sw = switches_in_window(r)
        sample = None
        if sw and not any(o[7] for o in out):
            sample = {'mode': 'asyncio' if atomic else 'threads', 'scenario': name, 'transport history': T,
                      'schedule': list(r.schedule),
                      'trace': [[' '.join(map(str, l)) for l in st] for st in r.trace][:14], 'status': str(r.status)}
        out.append((atomic, kind, tcase_term(fixed[atomic], atomic, params, T, C, r), list(r.schedule), r.status,
                    r.error, sw, sample))
        if r.error:
            errs.append(r.error)
            if len(errs) >= 8:
                raise TooManyErrors()

    try:
        for r in S.explore(run_a, P, C, limit=(1500 if thorough else 400)):
            add(True, r, 'transport exhaustive')
        if small:
            for r in S.explore(run_t, P, C, limit=(6000 if thorough else 1500)):
                add(False, r, 'transport exhaustive')
        else:
            k = 3 if thorough else 2
            for r in S.explore(run_t, P, C, limit=(2500 if thorough else 250), max_preempt=k):
                add(False, r, 'transport preemptions<=%d' % k)
            for _ in range(300 if thorough else 60):
                add(False, S.random_walk(run_t, P, C, rng), 'transport random walk')
        for _ in range(4):
            add(False, S.random_walk(run_t, P, C, rng, noop_rate=0.25), 'transport walk with no-ops')
            add(True, S.random_walk(run_a, P, C, rng, noop_rate=0.25), 'transport walk with no-ops')
    except TooManyErrors:
        pass
    S.close_loop()
    return out


def _explore_any(task):
    return _explore_transport(task) if task[0] == 'transport' else _explore_scenario(task)


def collect(chk):
    import multiprocessing
    from vt import common
    cases, meta = [], []
    fixed = {False: VARIANT, True: VARIANT}
    probed = {}
    for atomic, runner in ((False, S.run_threads), (True, S.run_async)):
        probed[atomic] = probe_variant(runner)
        if probed[atomic] != VARIANT:
            chk.broken_obligation('%s no longer has the repairs the model assumes: (final_wakes_input, '
                                  'recheck_before_raise) probed as %s, model runs %s' % (
                                      'AsyncSimpleClient' if atomic else 'SimpleClient', probed[atomic], VARIANT))
    S.close_loop()
    chk.extra['variant'] = {'model (final_wakes_input, recheck_before_raise)': list(VARIANT),
                            'SimpleClient probed': list(probed[False]),
                            'AsyncSimpleClient probed': list(probed[True])}
    n_err = [0]

    def add(name, P, C, rec):
        atomic, kind, term, schedule, status, error, sw, sample = rec
        cases.append(term)
        mode = 'asyncio' if atomic else 'threads'
        meta.append({'mode': mode, 'scenario': name, 'P': P, 'C': C, 'schedule': schedule,
                     'status': status, 'kind': kind, 'error': error})
        chk.count(1, (atomic, name, tuple(schedule)) if sw else None, sample)
        chk.dist('%s %s' % (mode, kind))
        chk.dist('switches in window: %s' % (sw if sw < 4 else '4+'))
        if error:
            n_err[0] += 1
            if n_err[0] <= 3:
                chk.broken_obligation('the real class leaves the modelled behaviour (driver error) on %s %r %s: %s'
                                      % (mode, name, schedule, error))

    # the refutation witnesses of the Coq development, replayed on the real classes
    for name, atomic, P, C, sched, bit in WITNESSES:
        r = (S.run_async if atomic else S.run_threads)(P, C, sched)
        add('witness ' + name, P, C, (atomic, 'witness', case_term(fixed[atomic], atomic, P, C, r),
                                      list(r.schedule), r.status, r.error, switches_in_window(r), None))
        meta[-1]['expect_bit'] = bit
    S.close_loop()

    scs = scenarios(chk.thorough)
    tscs = transport_scenarios(chk.rng.sub('C19/transport'), chk.thorough)
    tasks = [(name, P, C, small, chk.thorough, chk.rng.seed_value, fixed) for name, P, C, small in scs]
    tasks += [('transport', name, params, T, C, small, chk.thorough, chk.rng.seed_value, fixed)
              for name, params, T, C, small in tscs]
    costs = [_cost(sc, chk.thorough) for sc in scs] + [len(T) * len(C) for _, _, T, C, _ in tscs]
    order = sorted(range(len(tasks)), key=lambda i: -costs[i])
    ctx = multiprocessing.get_context('fork')
    with ctx.Pool(min(common.NCPU, len(tasks))) as pool:
        results = pool.map(_explore_any, [tasks[i] for i in order], chunksize=1)
    by_index = dict(zip(order, results))
    for i, (name, P, C, small) in enumerate(scs):
        for rec in by_index[i]:
            add(name, P, C, rec)
    n_plain = len(cases)
    for j, (name, params, T, C, small) in enumerate(tscs):
        for rec in by_index[len(scs) + j]:
            add(name, [T], C, rec)
            meta[-1]['transport'] = {'reconnection': params[0], 'attempts': params[1]}
    if n_err[0]:
        chk.broken_obligation('%d runs ended in a driver error' % n_err[0])
    chk.extra['transport_cases'] = len(cases) - n_plain
    return cases, meta, fixed, n_plain


def _cost(sc, thorough):
    name, P, C, small = sc
    steps = sum(len(x) for x in P) * len(C)
    return steps * (50 if thorough and name in EXHAUSTIVE_IN_THOROUGH else 1)


def run(chk):
    chk.rule = ('scheduled runs of the real SimpleClient / AsyncSimpleClient; a case is non-trivial when at '
                'least one producer step (handler access) is scheduled while a call of the application task '
                'is in progress, i.e. inside the modelled critical window; distinct by (class, scenario, schedule); '
                'transport scenarios: the same over the real Client / AsyncClient and a fake engine.io transport')
    chk.trusted_base = [
        'Coq 8.16.1 kernel + vm_compute (case evaluation, refutation witnesses)',
        'hand model coq/Simple/SimpleClient.v (transcribed from simple_client.py / async_simple_client.py); '
        'its fidelity is what the correspondence samples',
        'harness/drivers/sched_simple.py: baton scheduler, the re-implementation of threading.Event under the '
        'baton (test-and-register atomic, sticky notification), the asyncio.wait_for shim (cancel-and-convert '
        'as in CPython 3.12 asyncio.timeouts), the fake wrapped Client (handler registry, namespaces, '
        'BadNamespaceError from emit/call as client.py:218)',
        'choice of atomic steps: one per access to input_buffer / input_event / connected_event / connected / '
        'client.namespaces (threads); between real suspension points (asyncio, CPython 3.12 wait_for does not '
        'suspend when the event is already set)',
        'timers are a nondeterministic step enabled while the waiter is registered and not notified',
        'transport cases: hand function `dispatch` of coq/Simple/SimpleTransport.v (what the real Client turns a '
        'transport history into: handler invocations on the simple client\'s namespace); its fidelity is what the '
        'transport correspondence samples',
        'harness/drivers/sched_simple_eio.py: the fake engine.io client (contract of engineio 4.x client.py / '
        'async_client.py as in drivers/fake_eio_client.py; a CONNECT packet is answered at once), the instrumented '
        '`namespaces` attribute and emit() of the real Client subclass (a change of "\'/\' in namespaces" is one '
        'access), the wrappers logging the return of a handler invocation, the stepping of the reconnect task '
        '(one back-off wait per scripted attempt: helper thread acting for the producer task / coroutine stepped '
        'by hand)']
    chk.assumptions = [
        'one application thread/task calls receive()/emit()/call() (the classes are documented as not thread safe)',
        'the wrapped Client invokes the four handlers as client.py does (`lifecycle`) for the refutation '
        'witnesses; the positive theorems hold for arbitrary handler scripts on any number of producers',
        'SimpleClient.disconnect() by the application itself is not modelled (same thread as receive())',
        'transport cases: one namespace, the server never emits an event named like a lifecycle notification, the '
        'handlers the Client invokes for one connection run one after the other (reader thread, then reconnect '
        'task, then the next reader thread): one producer']
    chk.prove(targets=['Check/C19Check.v'])

    cases, meta, fixed, n_plain = collect(chk)
    codes, errors = coqio.eval_cases('c19', IMPORTS, DEFS, 'c19case', cases[:n_plain], 'c19_eval', shard=1500)
    # the transport cases (real Client / AsyncClient below the simple client) have their own case type
    tcodes, terrors = coqio.eval_cases('c19t', IMPORTS, DEFS, 'c19tcase', cases[n_plain:], 'c19t_eval', shard=1500)
    codes = dict(codes)
    codes.update({n_plain + i: c for i, c in tcodes.items()})
    errors = list(errors) + list(terrors)
    chk.traces_validated = len(cases)
    for e in errors:
        chk.broken_obligation('case evaluation failed: ' + e)

    # the schedules that failed before the fix commits: regression cases, must be clean now
    replayed = {}
    for idx, m in enumerate(meta):
        if m['kind'] != 'witness':
            continue
        code = codes.get(idx, 0)
        atomic = m['mode'] == 'asyncio'
        replayed[m['scenario']] = {'agrees_with_model': not (code & 1),
                                   'clause_that_failed_before_the_fix': m['expect_bit'],
                                   'fails_now': bool(code & m['expect_bit'])}
    chk.extra['witness_replay'] = replayed

    best, seen = {}, {}
    n_disagree = sum(1 for c in codes.values() if c & 1)
    if n_disagree:
        chk.broken_obligation('correspondence: model and implementation disagree on %d of %d runs' % (
            n_disagree, len(cases)))
    shown = 0
    for idx, code in sorted(codes.items()):
        m = meta[idx]
        if code & 1 and shown < 4:
            shown += 1
            chk.broken_obligation('correspondence: model and %s disagree on scenario %r schedule %s' % (
                m['mode'], m['scenario'], m['schedule']))
        if code & 1 and not (code & 2):
            # a run on which model and implementation disagree while the property holds on it
            best.setdefault('c19-correspondence', (idx, 'model coq/Simple/SimpleClient.v and the real class disagree'))
        if code & 2:
            for bit, sig, what in SIGNATURES:
                if code & bit:
                    sig = _sig(bit, sig, m['mode'])
                    seen.setdefault(sig, set()).add(m['mode'])
                    cur = best.get(sig)
                    if cur is None or _size(meta[idx]) < _size(meta[cur[0]]):
                        best[sig] = (idx, what)
    for sig, (idx, what) in sorted(best.items()):
        m = meta[idx]
        modes = sorted(seen.get(sig, {m['mode']}))
        replay = {'mode': m['mode'], 'P': m['P'], 'C': m['C'], 'schedule': m['schedule'],
                  'scenario': m['scenario'], 'case': cases[idx], 'seen_in': modes,
                  'fixed': fixed[m['mode'] == 'asyncio']}
        if 'transport' in m:
            replay['transport'] = m['transport']
        chk.violation(sig, '%s (minimal schedule found: %s, %s; seen in: %s)' % (
            what, m['mode'], m['schedule'], ', '.join(modes)), replay, no_input=(sig == 'c19-correspondence'))


def _sig(bit, sig, mode):
    # receive() has no suspension point between its emptiness test and entering the connected
    # wait, so clause 16 is not expected to fail at asyncio granularity: keep such a case apart
    return sig + '@asyncio' if bit == 16 and mode == 'asyncio' else sig


def _size(m):
    return (len(m['schedule']), sum(len(s) for s in m['P']) + len(m['C']), m['schedule'])


def replay(chk, data):
    rp = data['replay']
    if 'schedule' not in rp:
        print('nothing to replay: %s' % rp)
        return 1
    atomic = rp['mode'] == 'asyncio'
    runner = S.run_async if atomic else S.run_threads
    P = [[tuple(o[:2]) + ((list(o[2]),) if len(o) > 2 else ()) if o[0] in ('Event', 'TEvent') else tuple(o)
          for o in scr] for scr in rp['P']]
    C = [tuple(o) for o in rp['C']]
    probed = probe_variant(runner)
    fixed = VARIANT
    tparams = None
    if 'transport' in rp:
        tparams = (bool(rp['transport']['reconnection']), int(rp['transport']['attempts']))
        print('transport history (real Client / AsyncClient over a fake engine.io transport), '
              'reconnection=%s reconnection_attempts=%d:\n  %s' % (tparams[0], tparams[1], P[0]))
        r = runner(P, C, rp['schedule'], stack=X.make_stack(*tparams))
    else:
        r = runner(P, C, rp['schedule'])
    S.close_loop()
    print('mode=%s (final_wakes_input, recheck_before_raise): model %s, source probed %s' % (rp['mode'], fixed, probed))
    for ch, labels in zip(r.schedule, r.trace):
        print('  choice %d: %s' % (ch, labels))
    print('  final: status=%s producers_done=%s buffer=%s flags(iev,cev,conn,nsup)=%s' % (
        r.status, r.pdone, r.buf, r.flags))
    if tparams is not None:
        case = tcase_term(fixed, atomic, tparams, P[0], C, r)
        rc, out = coqio.eval_print('c19_replay', IMPORTS, DEFS, ['c19t_eval %s' % case, 'c19t_explain %s' % case])
    else:
        case = case_term(fixed, atomic, P, C, r)
        rc, out = coqio.eval_print('c19_replay', IMPORTS, DEFS, ['c19_eval %s' % case, 'c19_explain %s' % case])
    print(out)
    first = out.split('\n')[0] if out else ''
    code = int(first.split('=')[1].split(':')[0].strip().rstrip('%nat')) if '=' in first else -1
    for bit, sig, what in SIGNATURES:
        if code > 0 and code & bit:
            print('clause violated: %s - %s' % (sig, what))
    if code & 1:
        print('model and implementation disagree on this schedule')
    return 0 if code == 0 else 1


# ---------------------------------------------------------------------------------------
# C14 (asyncio == threaded): SimpleClient vs AsyncSimpleClient on the same scenario and schedule
# ---------------------------------------------------------------------------------------
def _parity_obs(r):
    """Flat list of plain values: outcome of every application call in order, then the final
    consumer status, buffer, flags (input_event, connected_event, connected, namespace up) and the
    number of deliveries made by emit()/call()."""
    out = []
    for step in r.trace:
        for l in step:
            if l[0] == 'Ret':
                out.append(['returned', l[1]])
            elif l[0] == 'Raise':
                out.append(['raised', l[1]])
            elif l[0] == 'Sent':
                out.append(['sent'])
    st = r.status
    out.append(['status', 'blocked-with-timeout' if st == ('blocked', True) else
                'blocked' if st == ('blocked', False) else str(st)])
    out.append(['buffer'] + [x for x in r.buf])
    out.append(['flags'] + [bool(b) for b in r.flags])
    out.append(['delivered', int(r.sent)])
    if r.error:
        out.append(['driver-error', str(r.error)])
    return out


def parity_traces(rng, n):
    """n (scenario, schedule) pairs run on BOTH simple clients at the granularity where they are
    comparable: a schedule is a list of choices (0 application task, 1 timer, 2+i producer i) in
    which a producer choice runs one whole handler invocation and an application choice runs the
    task until it is registered in a wait or its call is over.  That is the natural step of the
    asyncio class; the threaded class is driven with `macro=True` so that it takes the same
    steps.  Schedules are random maximal walks over the choices enabled on the asyncio class
    (all choices drawn from rng), replayed verbatim on the threaded class.  Returns
    [('simple-client', scenario_repr, trace_sync, trace_async)]; identical behaviour gives
    equal lists."""
    scs = scenarios(False)
    out = []
    try:
        for k in range(n):
            name, P, C, _ = scs[rng.randrange(len(scs))] if k >= len(scs) else scs[k]
            ra = S.random_walk(S.run_async, P, C, rng)
            rs = S.run_threads(P, C, list(ra.schedule), macro=True)
            out.append(('simple-client', repr((name, P, C, list(ra.schedule))), _parity_obs(rs), _parity_obs(ra)))
    finally:
        S.close_loop()
    return out
