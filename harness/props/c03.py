"""C03 - rooms: an emit reaches exactly the addressed members, once each."""
from vt import coqio
from gen import server_hist
from props import srvcommon


def nontrivial(cfg, ops, results):
    # at least one emit whose recipient set is neither empty nor everybody connected
    live = set()
    for o, (effs, _) in zip(ops, results):
        if o[0] == 'eio_connect':
            live.add(o[1])
        if o[0] == 'close':
            live.discard(o[1])
        if o[0] == 'emit':
            rec = set(e[1] for e in effs if e[0] == 'Out')
            if rec and rec != live:
                return True
    return False


def run(chk):
    rng = chk.rng
    n = 1200 if chk.thorough else 110
    chk.rule = ('random histories over connect / enter / leave / close_room / disconnect / emit(to=None|room|list|sid, '
                'skip_sid, namespace) with 1-5 transports, 3 namespaces, rooms incl. sid-named and int names, run on '
                'Server and AsyncServer; non-trivial = at least one emit whose recipient set is neither empty nor every '
                'live transport; distinct by per-operation effect signature')
    chk.trusted_base = ['Coq 8.16.1 kernel + vm_compute', 'hand models Manager/Manager.v, Server/Server.v, Codec/Packet.v',
                        'harness/drivers/srv.py (real socketio.Server/AsyncServer over real engineio sockets built by hand; '
                        'engineio generate_id replaced by a counter)', 'history generator gen/server_hist.py',
                        'bidict, engine.io send/queue semantics as modelled']
    chk.assumptions = ['engine.io drops sends to closed/unknown sockets (modelled)', 'falsy / empty-list targets are outside the domain']
    chk.prove()
    k = server_hist.Knobs(n_ops=30 if chk.thorough else 24, refuse=0.05, actions=0.15)
    k.w.update({'enter': 6, 'emit': 7, 'leave': 3, 'close_room': 1.5, 'rooms': 3, 'session': 0.3, 'junk': 0.1,
                'binary': 0.2, 'ack': 0.3, 'event': 1, 'emit_cb': 0.5})
    hs = srvcommon.load_corpus('c03') + [server_hist.gen_history(rng, k) for _ in range(n)]
    bad = srvcommon.run_histories(chk, 'c03', hs, nontrivial=nontrivial)
    report(chk, 'c03', hs, bad)


def report(chk, name, hs, bad, prop_sig=None, max_sigs=5):
    """One shrunk replay per distinct signature (classifier first, on the unshrunk history)."""
    seen = {}
    for i, mode, code, term in bad:
        cfg, ops = hs[i]
        if code & 2:
            sig = prop_sig(cfg, ops, mode) if prop_sig else '%s-%s-property' % (name, mode)
        else:
            sig = '%s-%s-correspondence' % (name, mode)
        if sig not in seen and len(seen) < max_sigs:
            seen[sig] = (i, mode, code)
    for sig, (i, mode, code) in seen.items():
        cfg, ops = hs[i]
        try:
            small = srvcommon.shrink_history(name, cfg, ops, mode, bool(code & 2))
            if code & 2 and prop_sig and prop_sig(cfg, small, mode) != sig:
                small = ops         # shrinking moved to another class: keep the original
        except Exception:
            small = ops
        replay = {'py': repr((cfg, small, mode))}
        if code & 2:
            chk.violation(sig, 'the %s server violates the Coq-checked %s checker on this history' % (mode, name.upper()), replay)
        else:
            chk.broken_obligation('correspondence: Server.v and the %s server disagree (history %d)' % (mode, i))
            chk.violation(sig, 'model and implementation disagree', replay, no_input=True)


def replay(chk, data, name='c03'):
    import ast
    cfg, ops, mode = ast.literal_eval(data['replay']['py'])
    code, term = srvcommon.eval_one(name, cfg, ops, mode)
    print('checker code (bit1 = model/implementation disagree, bit2 = property violated):', code)
    ctype, imports, fn, _ = srvcommon.case_kind(name)
    if ctype == 'xhcase':
        q = 'xfirst_diff (xh_cfg %s) srv_init (xh_ops %s) (xh_obs %s) 0' % (term, term, term)
    else:
        q = 'first_diff (h_cfg %s) srv_init (h_ops %s) (h_obs %s) 0' % (term, term, term)
    rc, out = coqio.eval_print(name + '_replay', imports, '', [q])
    print(out[-1500:])
    from drivers import srv
    res, dump = srv.run_history(cfg, ops, mode)
    for o, (e, _) in zip(ops, res):
        print(o, '=>', e)
    return 0 if code == 0 else 1
