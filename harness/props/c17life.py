"""C17 - the life of class-based namespace objects (part of the C17 package, used by props/c17.py).

A *world* is one recording server / client (subclass of the REAL class, see c17.make_recording_class;
its `_trigger_event`, `_get_event_handler`, `_get_namespace_handler`, `register_namespace` are the
real ones) with up to three namespace objects of one of the four real classes: created for a
concrete namespace, for the default namespace or for '*', registered through the real
`register_namespace` (or only attached with `_set_server` / `_set_client`).  A world script is a
sequence of

  {'t': 'call',  'o': object, 'm': helper, 'pos': [...], 'kw': [...], 'values': {...}}
  {'t': 'event', 'ns': namespace the event arrives on, 'event': name, 'inner': [steps]}

An event goes through the real dispatch path `obj._trigger_event(event, ns, ...)` ->
`_get_namespace_handler` -> `<namespace object>.trigger_event` -> `on_<event>`; the handler method
(of a test subclass of the real namespace class) runs the `inner` steps - helper calls made from
INSIDE the handler, and further events dispatched from inside it - and returns.  So helper calls
are made on fresh objects, between, after and during the dispatch of events that arrive on
different namespaces in sequence.

Every object's part of the world is one Coq case `Life k_<Class> <constructor call> ops observations`
(coq/Check/C17Check.v): ops are operations of the model coq/Forward/Life.v (LAttach, LRegister,
LEnter ns, LExit, LHelper h u call).  Coq compares what the model predicts from the generated class
description with what was seen (bit 1) and judges the observations alone (bit 2): the object is
filed under the namespace it was CREATED for and every helper call satisfies the forwarding
postcondition with that namespace as the own namespace - whatever was dispatched before.
"""
import inspect

from vt.coqio import cstr, clist, exn_name
from props import c17 as base

EVENT_NAMESPACES = ['/chat', '/news', '/', '/a/b', '/x']
CTOR_ARGS = ['/chat', '/news', None, '/', '/a/b', '', '*']
EVENTS_ASYNC_HANDLER = ['ev', 'connect', 'disconnect']
EVENTS_SYNC_HANDLER = ['msg']


def created_for(arg):
    """Only used to keep the registered objects of one world apart and for labels; the judged value
    is Life.created_ns, computed in Coq from the constructor call."""
    return arg or '/'


def make_handler_class(H, is_async):
    """Subclass of the real namespace class whose event handlers run the world's script."""
    ns = {}
    if is_async:
        async def on_async(self, *args):
            return await self._c17_world.handler_async(self, args)

        def on_sync(self, *args):
            return self._c17_world.handler_sync(self, args)
        for e in EVENTS_ASYNC_HANDLER:
            ns['on_' + e] = on_async
        for e in EVENTS_SYNC_HANDLER:
            ns['on_' + e] = on_sync
    else:
        def on_sync(self, *args):
            return self._c17_world.handler_sync(self, args)
        for e in EVENTS_ASYNC_HANDLER + EVENTS_SYNC_HANDLER:
            ns['on_' + e] = on_sync
    return type('Handling' + H.__name__, (H,), ns)


class LifeWorld:
    def __init__(self, row, spec):
        self.row = row
        self.spec = spec
        self.is_async = row['is_async']
        self.server_side = row['attr'] == 'server'
        self.T = row.setdefault('T', None) or make_handler_class(row['H'], self.is_async)
        row['T'] = self.T
        self.obj = row['R'](**base.UNDER_KW[row['ucls']])
        self.obj._c17_log = []
        self.objects = []
        self.logs = []
        self.stack = []
        self.unhandled = 0
        self.handled = 0
        self.errors = []

    # -- setup: constructor, registration ------------------------------------------------------
    def setup(self):
        for i, o in enumerate(self.spec['objects']):
            if o['ctor'] == 'none':
                ns = self.T()
            elif o['ctor'] == 'pos':
                ns = self.T(o['arg'])
            else:
                ns = self.T(namespace=o['arg'])
            ns._c17_world = self
            ns._c17_index = i
            self.objects.append(ns)
            self.logs.append([])
            if o['reg'] == 'register':
                self.obj.register_namespace(ns)
                keys = [k for k, v in self.obj.namespace_handlers.items() if v is ns]
                self.logs[i].append(('register', keys))
            else:
                getattr(ns, '_set_' + self.row['attr'])(self.obj)
                self.logs[i].append(('attach',))

    # -- one helper call -------------------------------------------------------------------------
    def _args(self, st):
        values = dict((k, base.spec_val(v)) for k, v in st['values'].items())
        return [values[n] for n in st['pos']], [(n, values[n]) for n in st['kw']]

    def call_sync(self, st):
        pos, kw = self._args(st)
        ns = self.objects[st['o']]
        del self.obj._c17_log[:]
        try:
            r = getattr(ns, st['m'])(*pos, **dict(kw))
        except BaseException as e:      # noqa: B902
            o = {'kind': 'raise', 'exn': exn_name(e), 'text': '%s: %s' % (type(e).__name__, e)}
        else:
            o = base.obs_from_log(self.obj, r)
        self.logs[st['o']].append(('helper', st, pos, kw, o))

    async def call_async(self, st):
        pos, kw = self._args(st)
        ns = self.objects[st['o']]
        del self.obj._c17_log[:]
        try:
            r = getattr(ns, st['m'])(*pos, **dict(kw))
            if inspect.isawaitable(r):
                r = await r
        except BaseException as e:      # noqa: B902
            o = {'kind': 'raise', 'exn': exn_name(e), 'text': '%s: %s' % (type(e).__name__, e)}
        else:
            o = base.obs_from_log(self.obj, r)
        self.logs[st['o']].append(('helper', st, pos, kw, o))

    # -- events ----------------------------------------------------------------------------------
    def _event_args(self, st):
        data = {'n': len(self.stack)}
        return (st['event'], st['ns'], 'sid1', data) if self.server_side else (st['event'], st['ns'], data)

    def run_sync(self, steps):
        for st in steps:
            if st['t'] == 'call':
                self.call_sync(st)
            else:
                self.stack.append([st, False])
                try:
                    self.obj._trigger_event(*self._event_args(st))
                except BaseException as e:      # noqa: B902
                    self.errors.append('dispatch of %r on %r raised %s: %s' % (
                        st['event'], st['ns'], type(e).__name__, e))
                self._popped(self.stack.pop())

    async def run_async(self, steps):
        for st in steps:
            if st['t'] == 'call':
                await self.call_async(st)
            else:
                self.stack.append([st, False])
                try:
                    await self.obj._trigger_event(*self._event_args(st))
                except BaseException as e:      # noqa: B902
                    self.errors.append('dispatch of %r on %r raised %s: %s' % (
                        st['event'], st['ns'], type(e).__name__, e))
                self._popped(self.stack.pop())

    def _popped(self, top):
        if top[1]:
            self.handled += 1
        else:
            self.unhandled += 1     # no namespace object is responsible: the inner steps did not run

    def handler_sync(self, nsobj, args):
        top = self.stack[-1]
        top[1] = True
        i = nsobj._c17_index
        self.logs[i].append(('enter', top[0]['ns'], args))
        self.run_sync(top[0]['inner'])
        self.logs[i].append(('exit',))
        return 'handled'

    async def handler_async(self, nsobj, args):
        top = self.stack[-1]
        top[1] = True
        i = nsobj._c17_index
        self.logs[i].append(('enter', top[0]['ns'], args))
        await self.run_async(top[0]['inner'])
        self.logs[i].append(('exit',))
        return 'handled'

    async def run(self):
        self.setup()
        if self.is_async:
            await self.run_async(self.spec['steps'])
        else:
            self.run_sync(self.spec['steps'])
        return self


# ---------------------------------------------------------------------------------------------
# Coq terms
# ---------------------------------------------------------------------------------------------
def ctor_term(o, pr):
    if o['ctor'] == 'none':
        return '(mkCall [] [])'
    if o['ctor'] == 'pos':
        return '(mkCall [%s] [])' % pr(o['arg'])
    return '(mkCall [] [(%s, %s)])' % (cstr('namespace'), pr(o['arg']))


def life_case(world, i):
    """(Gallina term, [python view of the ops]) of object i."""
    row = world.row
    pr = base.Printer()
    ops, obs, view = [], [], []
    for e in world.logs[i]:
        if e[0] == 'attach':
            ops.append('LAttach')
            obs.append('LONone')
        elif e[0] == 'register':
            ops.append('LRegister')
            obs.append('(LOKey %s)' % ('(Some %s)' % pr(e[1][0]) if len(e[1]) == 1 else 'None'))
        elif e[0] == 'enter':
            ops.append('(LEnter %s)' % pr(e[1]))
            obs.append('LONone')
        elif e[0] == 'exit':
            ops.append('LExit')
            obs.append('LONone')
        else:
            _k, st, pos, kw, o = e
            ops.append('(LHelper h_%s_%s m_%s_%s %s)' % (row['hcls'], st['m'], row['ucls'], st['m'],
                                                        base.call_term(pos, kw, pr)))
            obs.append('(LOCall %s)' % base.obs_term(o, pr))
        view.append(e)
    term = '(Life k_%s %s %s %s)' % (row['hcls'], ctor_term(world.spec['objects'][i], pr),
                                     clist(ops), clist(obs))
    return term, view


def describe_object(world, i):
    o = world.spec['objects'][i]
    arg = '' if o['ctor'] == 'none' else (repr(o['arg']) if o['ctor'] == 'pos' else 'namespace=%r' % (o['arg'],))
    return '%s(%s) %s' % (world.row['hcls'], arg, 'registered' if o['reg'] == 'register' else 'attached')


def describe_life(world, i, upto=None):
    """Readable history of object i (up to and including operation `upto`)."""
    out = [describe_object(world, i)]
    for n, e in enumerate(world.logs[i]):
        if upto is not None and n > upto:
            break
        if e[0] == 'register':
            out.append('filed under %s' % ', '.join(repr(k) for k in e[1]) if e[1] else 'not filed')
        elif e[0] == 'enter':
            out.append('event on %r dispatched to it {' % (e[1],))
        elif e[0] == 'exit':
            out.append('}')
        elif e[0] == 'helper':
            _k, st, pos, kw, o = e
            args = ['%r' % (v,) for v in pos] + ['%s=%r' % (k, v) for k, v in kw]
            out.append('.%s(%s) -> %s' % (st['m'], ', '.join(args), base.short_obs(o)))
    return '; '.join(out)


# ---------------------------------------------------------------------------------------------
# scenario generation
# ---------------------------------------------------------------------------------------------
def call_step(rng, row, o, m, omit_ns=None):
    sig = base.real_signature(getattr(row['H'], m))
    names = [p[0] for p in sig]
    cand = base.shapes(sig)
    if omit_ns is None:
        omit_ns = rng.random() < 0.65
    if 'namespace' in names:
        sel = [(k, kws) for k, kws in cand if ('namespace' in names[:k] + kws) != omit_ns]
        cand = sel or cand
    k, kws = rng.choice(cand[:40] if rng.random() < 0.5 else cand)
    kws = list(kws)
    rng.shuffle(kws)
    values = {}
    for n in names[:k] + kws:
        v = base.value_for(n, names.index(n), 'mixed', rng)
        if n == 'namespace' and rng.random() < 0.5:
            v = rng.choice(['/other', '/chat', '*'])       # an explicit, truthy override
        values[n] = base.val_spec(v)
    return {'t': 'call', 'o': o, 'm': m, 'pos': names[:k], 'kw': kws, 'values': values}


def sync_methods(row):
    return [m for m in row['methods'] if not inspect.iscoroutinefunction(getattr(row['H'], m))]


def event_step(rng, row, n_obj, depth):
    sync_handler = row['is_async'] and rng.random() < 0.25
    event = rng.choice(EVENTS_SYNC_HANDLER if sync_handler else
                       (EVENTS_ASYNC_HANDLER + ([] if row['is_async'] else EVENTS_SYNC_HANDLER)))
    inner = []
    for _ in range(rng.choice([0, 1, 1, 2, 3])):
        if sync_handler:
            ms = sync_methods(row)
            if ms:
                inner.append(call_step(rng, row, rng.randrange(n_obj), rng.choice(ms)))
        elif depth < 2 and rng.random() < 0.3:
            inner.append(event_step(rng, row, n_obj, depth + 1))
        else:
            inner.append(call_step(rng, row, rng.randrange(n_obj), rng.choice(row['methods'])))
    return {'t': 'event', 'ns': rng.choice(EVENT_NAMESPACES), 'event': event, 'inner': inner}


def random_world(rng, row):
    n_obj = rng.choice([1, 2, 2, 3])
    objects, used = [], set()
    for i in range(n_obj):
        for _ in range(10):
            arg = '*' if (i == 0 and rng.random() < 0.7) else rng.choice(CTOR_ARGS)
            reg = 'register' if rng.random() < 0.85 else 'attach'
            if reg == 'attach' or created_for(arg) not in used:
                break
        else:
            reg = 'attach'
        if reg == 'register':
            used.add(created_for(arg))
        ctor = 'none' if arg is None and rng.random() < 0.5 else rng.choice(['pos', 'pos', 'kw'])
        objects.append({'ctor': ctor, 'arg': arg, 'reg': reg})
    steps = []
    for _ in range(rng.randrange(3, 9)):
        if rng.random() < 0.45:
            steps.append(event_step(rng, row, n_obj, 0))
        else:
            steps.append(call_step(rng, row, rng.randrange(n_obj), rng.choice(row['methods'])))
    return {'class': row['hcls'], 'objects': objects, 'steps': steps, 'kind': 'random'}


def directed_worlds(rng, row):
    """For every helper: an object created for '*' and one created for '/chat' in the same world;
    the helper is called with the namespace omitted on both before any event, from inside the
    handler of an event on /chat (which the /chat object handles) and of an event on /news (which
    the catch-all object handles), after each of them, and finally with an explicit namespace."""
    out = []
    ev = 'ev'
    for m in row['methods']:
        objects = [{'ctor': 'pos', 'arg': '*', 'reg': 'register'},
                   {'ctor': 'pos', 'arg': '/chat', 'reg': 'register'}]

        def c(o, omit=True):
            return call_step(rng, row, o, m, omit_ns=omit)
        steps = [c(0), c(1),
                 {'t': 'event', 'ns': '/news', 'event': ev, 'inner': [c(0), c(1)]},
                 c(0), c(1),
                 {'t': 'event', 'ns': '/chat', 'event': ev, 'inner': [c(1), c(0)]},
                 {'t': 'event', 'ns': '/x', 'event': ev, 'inner': [
                     {'t': 'event', 'ns': '/a/b', 'event': ev, 'inner': [c(0)]}, c(0)]},
                 c(1), c(0), c(0, omit=False)]
        out.append({'class': row['hcls'], 'objects': objects, 'steps': steps, 'kind': 'directed'})
        # the catch-all object alone, created by keyword; events on two namespaces in sequence
        out.append({'class': row['hcls'], 'objects': [{'ctor': 'kw', 'arg': '*', 'reg': 'register'}],
                    'steps': [{'t': 'event', 'ns': '/chat', 'event': 'connect', 'inner': []}, c(0),
                              {'t': 'event', 'ns': '/news', 'event': 'disconnect', 'inner': []}, c(0)],
                    'kind': 'directed'})
    return out


def build_worlds(chk, world):
    rng = chk.rng.sub('life')
    n_random = 150 if chk.thorough else 30
    out = []
    for row in world.rows:
        out.extend(directed_worlds(rng, row))
        for _ in range(n_random):
            out.append(random_world(rng, row))
    return out


async def run_worlds(world, specs):
    res = []
    for spec in specs:
        res.append(await LifeWorld(world.row(spec['class']), spec).run())
    return res


# ---------------------------------------------------------------------------------------------
# classification of one life
# ---------------------------------------------------------------------------------------------
def life_shape(world, i):
    """(created for, dispatches before the last helper call, helper calls inside handlers,
    helper calls after a dispatch with the namespace omitted)"""
    o = world.spec['objects'][i]
    kind = 'catch-all' if created_for(o['arg']) == '*' else ('default' if created_for(o['arg']) == '/' else 'concrete')
    depth, entered, inside, after_omitted, helpers, ev_ns = 0, 0, 0, 0, 0, set()
    for e in world.logs[i]:
        if e[0] == 'enter':
            depth += 1
            entered += 1
            ev_ns.add(e[1])
        elif e[0] == 'exit':
            depth -= 1
        elif e[0] == 'helper':
            helpers += 1
            if depth:
                inside += 1
            if entered and 'namespace' not in e[1]['pos'] + e[1]['kw']:
                after_omitted += 1
    return {'kind': kind, 'entered': entered, 'inside': inside, 'after_omitted': after_omitted,
            'helpers': helpers, 'event_namespaces': len(ev_ns)}
