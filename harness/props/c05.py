"""C05 - incoming events: one handler invocation, one matching ACK to the sender only."""
from gen import server_hist
from props import srvprop


def nontrivial(cfg, ops, results):
    n = 0
    for o, (effs, _) in zip(ops, results):
        if o[0] in ('msg', 'msg_sd') and any(e[0] == 'Call' for e in effs) and any(e[0] == 'Out' for e in effs):
            n += 1
    return n >= 1 and sum(1 for o in ops if o[0] == 'eio_connect') >= 2


def run(chk):
    k = server_hist.Knobs(n_ops=32, refuse=0.05, actions=0.0, catchall=0.35, class_ns=0.4, self_disconnect=0.15)
    k.w.update({'event': 9, 'binary': 2.5, 'connect': 5, 'emit': 0.5, 'emit_cb': 0.2, 'enter': 0.5, 'leave': 0.2,
                'close_room': 0.1, 'rooms': 0.2, 'session': 0.1, 'junk': 0.6, 'ack': 0.3, 'client_disconnect': 1.2})
    chk.assumptions = ['handlers run inline (async_handlers=False); with background handlers the same code runs in a task',
                       'events literally named connect/disconnect are outside the domain']
    srvprop.run(chk, 'c05', k, 120, 1500,
                'histories of EVENT / BINARY_EVENT packets (ids None, 0, arbitrary) from 2-5 clients on 3 namespaces '
                'interleaved with connects / disconnects; function handlers, catch-alls and class-based namespaces with '
                'return values None / scalars / lists / dicts / tuples / bytes; non-trivial = at least two transports and '
                'one event that is both handled and acknowledged; distinct by per-operation effect signature',
                nontrivial)


def replay(chk, data):
    return srvprop.replay(chk, data, 'c05')
