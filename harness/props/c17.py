"""C17 - class-based namespace helpers use their own namespace and forward every argument.

Tie: TRANSLATOR.  harness/translator/fwd2coq.py regenerates coq/Forward/Gen_forward.v (helper
bodies as data + signatures of the underlying methods) from the working tree on every run;
Props/C17.v re-proves one theorem per helper over the regenerated text.

Dynamic part (every run, exhaustive): the four REAL classes x every helper x every way of
giving a subset of the optional arguments (k leading parameters positionally, the rest by
keyword) x value variants (opaque sentinels / falsy-but-meaningful values / a random mix),
called on an instance registered with a recording subclass of the real Server / AsyncServer /
Client / AsyncClient whose overridden methods have the real signatures.  The call received is
compared in Coq with what the generated description + bind_call predict (bit 1) and judged by
the Coq-verified postcondition post_okb (bit 2).  The translator itself is validated against
inspect.signature, and bind_call against CPython's own argument binding.

Second dynamic part (props/c17life.py, model coq/Forward/Life.v): lives of namespace objects -
created for a concrete namespace / the default namespace / '*', registered with the real
register_namespace, events arriving on different namespaces dispatched to them through the real
_trigger_event -> _get_namespace_handler -> trigger_event path, helper calls made before, between,
after and from inside the handlers.  The expectation stays "omitted namespace = the namespace the
object was created (registered) for".
"""
import asyncio
import inspect
import json
import os
import warnings

from vt import common, coqio
from vt.coqio import cstr, clist, cbool, exn_name, Obj
from translator import fwd2coq

IMPORTS = 'From VT Require Import Base.PyVal Forward.Forward Forward.Gen_forward Check.C17Check.'

UNDER_KW = {'Server': {}, 'AsyncServer': {'async_mode': 'asgi'}, 'Client': {}, 'AsyncClient': {}}

# explicit falsy-but-meaningful values per parameter name (first entry = the canonical one)
FALSY = {
    'event': ['', 0],
    'data': [0, '', [], {}, False, None],
    'to': ['', 0],
    'room': ['', 0],
    'sid': ['', 0],
    'skip_sid': [[], ''],
    'namespace': ['', None, 0, []],
    'callback': [None, 0],
    'ignore_queue': [False, 0, None],
    'timeout': [0, None, False],
    'session': [{}, None],
}
REG_NAMESPACES = ['/chat', None, '/', '/a/b', '/x', '*']

_RESULT_CYCLE = [0]


def next_result():
    """Value the recording server/client returns: mostly an opaque object, every other call a
    falsy-but-meaningful value (empty session dict, empty room list, 0, '', None) -- 'the result is
    passed back unchanged' must hold for those too (identity is compared)."""
    _RESULT_CYCLE[0] += 1
    i = _RESULT_CYCLE[0]
    if i % 2:
        return Result()
    return [dict(), list(), 0, '', None, tuple()][(i // 2) % 6]


REASONS = [(32, 'raises-or-no-call'), (256, 'wrong-method'), (16, 'arg'), (8, 'namespace'), (4, 'result'),
           (64, 'unexposed-param-altered'), (128, 'bound-twice')]


class Result:
    """What a recorded method returns; the helper must hand back this very object."""


class Printer:
    """Python value -> pv term; objects the harness did not create become PObj 1000+."""

    def __init__(self):
        self.unknown = []

    def __call__(self, v):
        try:
            return coqio.pv(v)
        except TypeError:
            pass
        if isinstance(v, list):
            return '(PList %s)' % clist([self(x) for x in v])
        if isinstance(v, tuple):
            return '(PTuple %s)' % clist([self(x) for x in v])
        if isinstance(v, dict):
            return '(PDict %s)' % clist(['(%s, %s)' % (self(k), self(x)) for k, x in v.items()])
        for i, u in enumerate(self.unknown):
            if u is v:
                return '(PObj %d%%N)' % (1000 + i)
        self.unknown.append(v)
        return '(PObj %d%%N)' % (1000 + len(self.unknown) - 1)


def env_term(items, pr):
    return clist(['(%s, %s)' % (cstr(k), pr(v)) for k, v in items])


def call_term(pos, kw, pr):
    return '(mkCall %s %s)' % (clist([pr(v) for v in pos]), env_term(kw, pr))


def real_signature(fn):
    """[(name, has_default, default)] without self, or None when outside the model."""
    out = []
    ps = list(inspect.signature(fn).parameters.values())
    if not ps or ps[0].name != 'self':
        return None
    for p in ps[1:]:
        if p.kind != inspect.Parameter.POSITIONAL_OR_KEYWORD:
            return None
        out.append((p.name, p.default is not inspect.Parameter.empty,
                    None if p.default is inspect.Parameter.empty else p.default))
    return out


def sig_term(sig, pr):
    return clist(['(%s, %s)' % (cstr(n), 'Some %s' % pr(d) if has else 'None') for n, has, d in sig])


# ---------------------------------------------------------------------------------------------
# recording subclasses of the real server / client classes
# ---------------------------------------------------------------------------------------------
def make_recording_class(real_cls, methods):
    """Subclass of the real class whose listed methods record the call they receive.  Each
    override is an `*args, **kwargs` shell (records the raw call) around an inner function
    compiled with the REAL method's signature, so CPython itself binds the arguments and a
    binding error surfaces exactly as it would on the real method."""
    ns = {}
    for m in methods:
        real = inspect.getattr_static(real_cls, m)
        if not inspect.isfunction(real):
            raise TypeError('%s.%s is not a plain function' % (real_cls.__name__, m))
        sig = inspect.signature(real)
        is_async = inspect.iscoroutinefunction(real)
        names = [p for p in sig.parameters]
        src = '%sdef %s%s:\n    return _bound(%s)\n' % (
            'async ' if is_async else '', m, sig, ', '.join('(%r, %s)' % (n, n) for n in names[1:]))
        scope = {'_bound': lambda *items: list(items)}
        exec(compile(src, '<recorder %s.%s>' % (real_cls.__name__, m), 'exec'), scope)
        inner = scope[m]

        def make(m=m, inner=inner, is_async=is_async):
            if is_async:
                async def outer(self, *args, **kwargs):
                    entry = {'m': m, 'args': args, 'kwargs': list(kwargs.items()), 'bound': None,
                             'result': next_result()}
                    self._c17_log.append(entry)
                    entry['bound'] = await inner(self, *args, **kwargs)
                    return entry['result']
            else:
                def outer(self, *args, **kwargs):
                    entry = {'m': m, 'args': args, 'kwargs': list(kwargs.items()), 'bound': None,
                             'result': next_result()}
                    self._c17_log.append(entry)
                    entry['bound'] = inner(self, *args, **kwargs)
                    return entry['result']
            outer.__name__ = m
            outer.__signature__ = inspect.signature(inner)
            return outer, inner
        ns[m], _ = make()
        ns['_c17_inner_' + m] = staticmethod(inner)
    return type('Recording' + real_cls.__name__, (real_cls,), ns)


class World:
    """The real classes of the tree under test plus one recording object per underlying class."""

    def __init__(self):
        import socketio
        self.socketio = socketio
        self.rows = []
        for hcls, _hf, attr, ucls, _uf, methods in fwd2coq.TABLE:
            H = getattr(socketio, hcls)
            U = getattr(socketio, ucls)
            R = make_recording_class(U, methods)
            obj = R(**UNDER_KW[ucls])
            obj._c17_log = []
            self.rows.append({'hcls': hcls, 'H': H, 'attr': attr, 'ucls': ucls, 'U': U, 'R': R,
                              'obj': obj, 'methods': methods,
                              'is_async': hcls.startswith('Async')})

    def row(self, hcls):
        return [r for r in self.rows if r['hcls'] == hcls][0]


# ---------------------------------------------------------------------------------------------
# scenarios
# ---------------------------------------------------------------------------------------------
def shapes(sig):
    """All ways of giving a subset of the optional arguments: k leading parameters
    positionally, the remaining required ones by keyword, any subset of the remaining optional
    ones by keyword.  Sorted so that the smallest argument sets come first."""
    n = len(sig)
    optional = set(p[0] for p in sig if p[1])
    out = []
    for k in range(n + 1):
        rest = sig[k:]
        opt = [p[0] for p in rest if p[1]]
        for mask in range(1 << len(opt)):
            chosen = set(o for i, o in enumerate(opt) if mask >> i & 1)
            kws = [p[0] for p in rest if not p[1] or p[0] in chosen]
            n_opt = len([p for p in sig[:k] if p[0] in optional]) + len(chosen)
            out.append((n_opt, k, kws))
    out.sort()
    return [(k, kws) for _n, k, kws in out]


def value_for(name, idx, variant, rng):
    """(python value, json spec)"""
    if variant == 'sentinel':
        return Obj(idx + 1)
    if variant == 'falsy':
        return clone(FALSY.get(name, [0])[0])
    # mixed
    r = rng.random()
    if r < 0.4:
        return Obj(idx + 1)
    if r < 0.85:
        return clone(rng.choice(FALSY.get(name, [0, '', None])))
    return rng.choice(['/other', 'x', 1, True, 2.5, [1], {'k': 1}, (1, 2)])


def clone(v):
    return json.loads(json.dumps(v))


def val_spec(v):
    if isinstance(v, Obj):
        return {'obj': v.n}
    if isinstance(v, tuple):
        return {'tuple': list(v)}
    return {'lit': v}


def spec_val(s):
    if 'obj' in s:
        return Obj(s['obj'])
    if 'tuple' in s:
        return tuple(s['tuple'])
    return s['lit']


async def observe(row, m, reg_ns, reg_mode, pos_vals, kw_items):
    """Run one helper call on the real class; returns (self.namespace, observation dict)."""
    H, obj = row['H'], row['obj']
    ns = H() if reg_ns is None else H(reg_ns)
    if reg_mode == 'register':
        obj.register_namespace(ns)
    else:
        getattr(ns, '_set_' + row['attr'])(obj)
    del obj._c17_log[:]
    try:
        r = getattr(ns, m)(*pos_vals, **dict(kw_items))
        if inspect.isawaitable(r):
            r = await r
    except BaseException as e:      # noqa: B902 - any failure of the helper is an observation
        return ns.namespace, {'kind': 'raise', 'exn': exn_name(e), 'text': '%s: %s' % (type(e).__name__, e)}
    return ns.namespace, obs_from_log(obj, r)


def obs_from_log(obj, r):
    """Observation of one helper call that returned `r`: the one call the recording object received."""
    log = list(obj._c17_log)
    if len(log) != 1 or log[0]['bound'] is None:
        if inspect.iscoroutine(r):
            r.close()
        return {'kind': 'other', 'n': len(log)}
    e = log[0]
    return {'kind': 'call', 'm': e['m'], 'args': list(e['args']), 'kwargs': e['kwargs'],
            'bound': e['bound'], 'same': r is e['result']}


def obs_term(o, pr):
    if o['kind'] == 'raise':
        return '(ObsRaise %s)' % o['exn']
    if o['kind'] == 'other':
        return '(ObsOther %d%%nat)' % o['n']
    return '(ObsCall %s %s %s %s)' % (cstr(o['m']), call_term(o['args'], o['kwargs'], pr),
                                     env_term(o['bound'], pr), cbool(o['same']))


def fwd_case(row, m, self_ns, pos_vals, kw_items, o):
    pr = Printer()
    return '(Fwd h_%s_%s m_%s_%s %s %s %s)' % (row['hcls'], m, row['ucls'], m, pr(self_ns),
                                               call_term(pos_vals, kw_items, pr), obs_term(o, pr))


def describe_call(row, m, reg_ns, pos_names, kw_items, values):
    args = ['<%s>=%r' % (n, values[n]) for n in pos_names] + ['%s=%r' % (k, v) for k, v in kw_items]
    return '%s(%s).%s(%s)' % (row['hcls'], '' if reg_ns is None else repr(reg_ns), m, ', '.join(args))


def classify(row, m, sig, meta, o, code):
    """Stable structural signature of a property violation (classification only; the verdict
    itself comes from Coq)."""
    base = 'c17-%s.%s' % (row['hcls'], m)
    for bit, name in REASONS:
        if code & bit:
            if name == 'arg' and o['kind'] == 'call':
                bound = dict((k, v) for k, v in o['bound'])
                for p in meta['given']:
                    if p != 'namespace' and p in bound and not same_value(bound[p], meta['values'][p]):
                        return '%s-arg:%s' % (base, p)
            return '%s-%s' % (base, name)
    return base + '-property'


def same_value(a, b):
    return a is b or (type(a) is type(b) and a == b)


# ---------------------------------------------------------------------------------------------
def build_scenarios(chk, world):
    """One dict per helper call to make on the real classes."""
    rng = chk.rng
    variants = ['sentinel', 'falsy', 'mixed'] + (['mixed'] * 5 if chk.thorough else [])
    out = []
    for row in world.rows:
        for m in row['methods']:
            sig = real_signature(getattr(row['H'], m))
            if sig is None:
                out.append({'row': row, 'm': m, 'sig': None})
                continue
            names = [p[0] for p in sig]
            for vi, variant in enumerate(variants):
                for k, kws in shapes(sig):
                    if variant == 'sentinel':
                        reg_ns, reg_mode = '/chat', 'register'
                    elif variant == 'falsy':
                        reg_ns, reg_mode = None, 'set'
                    else:
                        reg_ns, reg_mode = rng.choice(REG_NAMESPACES), rng.choice(['register', 'set'])
                    kw_order = list(kws)
                    if variant == 'mixed':
                        rng.shuffle(kw_order)
                    values = {}
                    for n in names[:k] + kws:
                        values[n] = value_for(n, names.index(n), variant, rng)
                    out.append({'row': row, 'm': m, 'sig': sig, 'reg_ns': reg_ns, 'reg_mode': reg_mode,
                                'pos_names': names[:k], 'kw_order': kw_order, 'variant': variant, 'vi': vi,
                                'values': values, 'extra_pos': [], 'extra_kw': []})
            # calls that are invalid at the helper itself (binding model only)
            nreq = len([p for p in sig if not p[1]])
            base_pos = names[:nreq]
            neg = [('unknown-keyword', base_pos, [('bogus_kw', Obj(90))], []),
                   ('too-many-positional', names, [], [Obj(91)])]
            if nreq:
                neg.append(('missing-required', names[:nreq - 1], [], []))
                neg.append(('duplicate', base_pos, [(names[0], Obj(92))], []))
            for kind, pn, extra_kw, extra_pos in neg:
                values = dict((n, Obj(names.index(n) + 1)) for n in pn)
                out.append({'row': row, 'm': m, 'sig': sig, 'reg_ns': '/chat', 'reg_mode': 'set',
                            'pos_names': list(pn), 'kw_order': [], 'variant': 'neg:' + kind, 'vi': 0,
                            'values': values, 'extra_pos': extra_pos, 'extra_kw': extra_kw})
    return out


async def run_all(scenarios):
    res = []
    for sc in scenarios:
        if sc['sig'] is None:
            res.append(None)
            continue
        values = sc['values']
        pos_vals = [values[n] for n in sc['pos_names']] + list(sc['extra_pos'])
        kw_items = [(n, values[n]) for n in sc['kw_order']] + list(sc['extra_kw'])
        self_ns, o = await observe(sc['row'], sc['m'], sc['reg_ns'], sc['reg_mode'], pos_vals, kw_items)
        res.append((self_ns, pos_vals, kw_items, o))
    return res


def _plain(v, names_of):
    """Observation value -> plain Python value (sentinels become 'v:<param>')."""
    if isinstance(v, Obj):
        return 'v:%s' % names_of.get(v.n, '#%d' % v.n)
    if v is None or isinstance(v, (bool, int, str, bytes)):
        return v
    if isinstance(v, float):
        return repr(v)
    if isinstance(v, list):
        return [_plain(x, names_of) for x in v]
    if isinstance(v, tuple):
        return tuple(_plain(x, names_of) for x in v)
    if isinstance(v, dict):
        return dict((str(_plain(k, names_of)), _plain(x, names_of)) for k, x in v.items())
    return 'obj:%s' % type(v).__name__


def _parity_trace(o, names_of):
    if o['kind'] == 'raise':
        return ['raise', o['exn']]
    if o['kind'] == 'other':
        return ['calls', o['n']]
    out = ['call', o['m']]
    for k, v in o['bound']:
        out += [k, _plain(v, names_of)]
    return out + ['result-passed-back', bool(o['same'])]


def parity_traces(rng, n):
    """For C14: n call shapes (helper x argument subset x values), each run on the threaded class
    and on its asyncio twin (Namespace/AsyncNamespace, ClientNamespace/AsyncClientNamespace) with
    the recording driver.  Returns [(kind, scenario_repr, trace_sync, trace_async)]; a trace is a
    flat list of plain values: 'call', method, name1, value1, ..., 'result-passed-back', bool  |
    'raise', exception class  |  'calls', number.  Shapes only use parameters that both twins
    have (ClientNamespace.send has a vestigial `room` that AsyncClientNamespace.send lacks).
    No chk.*; every choice comes from `rng`."""
    warnings.simplefilter('ignore', RuntimeWarning)
    world = World()
    twins = [(world.row('Namespace'), world.row('AsyncNamespace')),
             (world.row('ClientNamespace'), world.row('AsyncClientNamespace'))]
    plan = []
    for _ in range(n):
        srow, arow = twins[0] if rng.random() < 0.7 else twins[1]
        m = rng.choice(srow['methods'])
        sig = real_signature(getattr(srow['H'], m))
        asig = real_signature(getattr(arow['H'], m))
        if sig is None or asig is None:
            continue
        common_names = set(p[0] for p in asig)
        names = [p[0] for p in sig]
        cand = [(k, kws) for k, kws in shapes(sig)
                if all(x in common_names for x in names[:k] + kws)]
        k, kws = rng.choice(cand)
        kw_order = list(kws)
        rng.shuffle(kw_order)
        values = dict((x, value_for(x, names.index(x), 'mixed', rng)) for x in names[:k] + kws)
        reg_ns = rng.choice(REG_NAMESPACES)
        reg_mode = rng.choice(['register', 'set'])
        plan.append((srow, arow, m, names, k, kw_order, values, reg_ns, reg_mode))

    async def go():
        out = []
        for srow, arow, m, names, k, kw_order, values, reg_ns, reg_mode in plan:
            names_of = dict((i + 1, x) for i, x in enumerate(names))
            traces = []
            for row in (srow, arow):
                pos_vals = [clone_value(values[x]) for x in names[:k]]
                kw_items = [(x, clone_value(values[x])) for x in kw_order]
                self_ns, o = await observe(row, m, reg_ns, reg_mode, pos_vals, kw_items)
                traces.append(['registered-as', self_ns] + _parity_trace(o, names_of))
            scen = '%s/%s.%s(%s) registered %r via %s' % (
                srow['hcls'], arow['hcls'], m,
                ', '.join(['<%s>=%r' % (x, _plain(values[x], names_of)) for x in names[:k]] +
                          ['%s=%r' % (x, _plain(values[x], names_of)) for x in kw_order]),
                reg_ns, reg_mode)
            out.append(('namespace', scen, traces[0], traces[1]))
        return out
    return asyncio.run(go())


def clone_value(v):
    """Fresh copy of a mutable literal so that the two twins cannot influence each other."""
    if isinstance(v, list):
        return [clone_value(x) for x in v]
    if isinstance(v, dict):
        return dict((k, clone_value(x)) for k, x in v.items())
    return v


def bind_cases(chk, world):
    """bind_call against CPython's own binding, on the real signatures of the underlying
    methods (the recorder's inner functions) with arbitrary calls, valid or not."""
    rng = chk.rng
    per = 40 if chk.thorough else 12
    out = []
    for row in world.rows:
        for m in row['methods']:
            sig = real_signature(getattr(row['U'], m))
            if sig is None:
                continue
            inner = getattr(row['R'], '_c17_inner_' + m)
            names = [p[0] for p in sig]
            is_async = inspect.iscoroutinefunction(inner)
            for _ in range(per):
                k = rng.randrange(0, len(names) + 2)
                pos = [Obj(i + 1) for i in range(k)]
                pool = names + ['bogus']
                kws = [n for n in pool if rng.random() < 0.35]
                rng.shuffle(kws)
                kw = [(n, Obj(50 + i)) for i, n in enumerate(kws)]
                try:
                    r = inner(None, *pos, **dict(kw))
                    if is_async:
                        try:
                            r.send(None)
                        except StopIteration as stop:
                            r = stop.value
                    obs = (True, r)
                except TypeError:
                    obs = (False, 'TypeError')
                out.append((row, m, sig, pos, kw, obs))
    return out


def run(chk):
    warnings.simplefilter('ignore', RuntimeWarning)
    chk.rule = ('exhaustive: 4 real classes x every helper x every (k leading parameters positional, subset '
                'of the remaining optional parameters by keyword) x value variants (opaque sentinels / '
                'falsy-but-meaningful values such as skip_sid=[], timeout=0, ignore_queue=False, namespace=\'\' / '
                'random mix with shuffled keyword order and varying registration namespace and registration '
                'route); every such case is non-trivial (the namespace rule and every given argument are '
                'checked on the call received); distinct by (class, method, k, keyword set, variant); calls '
                'that are invalid at the helper itself, signature comparisons and raw binding cases are '
                'counted as trivial.  Lives of namespace objects (model Forward/Life.v): per class one directed '
                'world per helper (objects created for \'*\' and for \'/chat\' on one real server/client, the '
                'helper called with the namespace omitted before, inside and after the handlers of events '
                'arriving on /news, /chat, /x, /a/b through the real _trigger_event path, nested dispatch '
                'included) + random worlds (1-3 objects, 3-8 steps, events with 0-3 inner steps); one case per '
                'object; a life is non-trivial when a helper call follows at least one dispatched event; '
                'distinct by (world, object)')
    chk.trusted_base = [
        'Coq 8.16.1 kernel + vm_compute',
        'harness/translator/fwd2coq.py (Python ast -> Forward.helper / Forward.method data); validated each '
        'run: signatures against inspect.signature, bodies by comparing the predicted call with the call '
        'the real helper makes, for every argument subset',
        'coq/Forward/Forward.v: bind_call as the model of CPython argument binding (validated each run '
        'against CPython on the real signatures), the expression semantics of `or` via PyVal.truthy',
        'the table helper class -> (self.server | self.client, underlying class) in fwd2coq.TABLE',
        'harness/props/c17.py: recording subclasses (inner functions compiled from inspect.signature of '
        'the real methods), scenario enumeration, Python->Gallina printer (vt/coqio.py)',
        'harness/props/c17life.py: world scripts, handler subclasses of the real namespace classes, projection '
        'of the world log to one life per object; coq/Forward/Life.v: created_ns (Namespace(x) is for x or '
        '\'/\') as the meaning of "the namespace the object was registered for"; fwd2coq class descriptions '
        '(k_plain: syntactic scan of the MRO and of the package for anything that could make `namespace` '
        'other than a plain attribute written once by __init__; dispatch path scanned for attribute stores '
        'and calls outside a whitelist)']
    chk.assumptions = [
        'what an omitted optional argument other than namespace defaults to is not part of the claim '
        '(Namespace.call / ClientNamespace.call forward timeout=None although Server.call defaults to 60)',
        'helper parameters the underlying method lacks are not part of the claim (ClientNamespace.send(room=))',
        'parameters of the underlying method that the helper does not expose must keep their default; they '
        'cannot be given through the helper (Server.disconnect(ignore_queue=) is not reachable through '
        'Namespace.disconnect) - reported as information, not as a violation',
        'truthiness of caller values is PyVal.truthy; objects with a user-defined __bool__/__len__ are '
        'represented by whatever truth value they have (the theorem quantifies over all pv values)']
    proved = chk.prove()
    if not fwd2coq.vo_is_fresh():
        chk.broken_obligation('coq/Forward/Gen_forward.vo was not compiled from the current Gen_forward.v '
                              '(another process regenerated it from a different tree during the build); rerun')

    # the generated text and what the translator said about it
    _text, tmsgs, desc = fwd2coq.translate()
    untranslated = [d for d in desc if not d['translated']]
    chk.extra['translator_messages'] = tmsgs
    chk.extra['unexposed_underlying_parameters'] = [
        '%s.%s lacks %s of %s.%s' % (d['helper_class'], d['method'], p[0], d['under_class'], d['method'])
        for d in desc for p in d['usig'] if p[0] not in [q[0] for q in d['hsig']]]
    chk.extra['helper_parameters_without_counterpart'] = [
        '%s.%s has %s, %s.%s does not' % (d['helper_class'], d['method'], p[0], d['under_class'], d['method'])
        for d in desc for p in d['hsig'] if p[0] not in [q[0] for q in d['usig']]]

    # make sure the files the case evaluation needs are compiled even if a theorem broke
    ok, out = coqio.build(['Check/C17Check.v', 'Forward/Gen_forward.v'])
    if not ok:
        chk.broken_obligation('cannot build Check/C17Check.v / Forward/Gen_forward.v: ' + out[-1500:])
        return
    model_bad = {}
    if not proved:
        model_bad = diagnose(chk, desc)

    world = World()
    scenarios = build_scenarios(chk, world)
    results = asyncio.run(run_all(scenarios))

    cases, meta, sampled = [], [], set()
    for sc, res in zip(scenarios, results):
        row, m = sc['row'], sc['m']
        if res is None:
            chk.broken_obligation('signature of %s.%s is outside the model (not plain positional-or-keyword '
                                  'parameters)' % (row['hcls'], m))
            continue
        self_ns, pos_vals, kw_items, o = res
        cases.append(fwd_case(row, m, self_ns, pos_vals, kw_items, o))
        mt = dict(sc)
        mt.update({'kind': 'fwd', 'given': sc['pos_names'] + sc['kw_order'], 'obs': o, 'self_ns': self_ns})
        meta.append(mt)
        variant = sc['variant']
        trivial = variant.startswith('neg:')
        key = None if trivial else (row['hcls'], m, len(sc['pos_names']), tuple(sorted(sc['kw_order'])),
                                    variant, sc['vi'])
        sample = None
        skey = (row['hcls'], variant)
        if not trivial and len(sc['kw_order']) >= 2 and len(sc['pos_names']) >= 1 and skey not in sampled \
                and m in ('emit', 'call', 'send') and (len(sampled) % 2 == 0 or 'namespace' in sc['kw_order']):
            sampled.add(skey)
            sample = {'call': describe_call(row, m, sc['reg_ns'], sc['pos_names'], kw_items, sc['values']),
                      'registered_as': self_ns, 'received': short_obs(o)}
        chk.count(1, key, sample)
        chk.dist('%s %s' % (row['hcls'], 'invalid-call' if trivial else variant))

    # lives of namespace objects: events dispatched through the real server / client, helper calls
    # before, between, after and inside the handlers
    from props import c17life
    kdesc = fwd2coq.class_descriptions()
    chk.extra['namespace_class_descriptions'] = [
        dict((k, v) for k, v in d.items() if k in ('helper_class', 'plain', 'attach', 'register', 'key', 'dispatch'))
        for d in kdesc]
    if not proved:
        diagnose_classes(chk, kdesc)
    specs = c17life.build_worlds(chk, world)
    worlds = asyncio.run(c17life.run_worlds(world, specs))
    life_samples = 0
    for wi, (spec, w) in enumerate(zip(specs, worlds)):
        for err in w.errors:
            chk.broken_obligation('life scenario: %s (world %d of %s)' % (err, wi, spec['class']))
        for oi in range(len(spec['objects'])):
            term, view = c17life.life_case(w, oi)
            shape = c17life.life_shape(w, oi)
            cases.append(term)
            meta.append({'kind': 'life', 'world': w, 'spec': spec, 'wi': wi, 'oi': oi, 'view': view,
                         'shape': shape, 'row': w.row})
            nontrivial = shape['entered'] and shape['after_omitted']
            sample = None
            if nontrivial and shape['inside'] and shape['kind'] == 'catch-all' and life_samples < 2 \
                    and shape['event_namespaces'] >= 2 and spec['kind'] == 'random':
                life_samples += 1
                sample = {'life': c17life.describe_life(w, oi)}
                chk.extra.setdefault('life_samples', []).append(sample['life'])
            chk.count(1, ('life', spec['class'], wi, oi) if nontrivial else None, sample)
            chk.dist('life %s %s %s' % (spec['class'], shape['kind'],
                                        'helper-after-dispatch' if nontrivial else
                                        ('no-dispatch' if not shape['entered'] else 'dispatch-only')))
        chk.dist('life events handled', w.handled)
        chk.dist('life events without a responsible object', w.unhandled)

    # translator validation: generated signatures / async flags against the real functions
    for row, kd in zip(world.rows, kdesc):
        rs = real_signature(row['H'].__init__)
        pr = Printer()
        if rs is None:
            chk.broken_obligation('constructor of %s: real signature outside the model' % row['hcls'])
            continue
        cases.append('(SigOf %s %s false false)' % (sig_term(kd['ctor_sig'], pr), sig_term(rs, pr)))
        meta.append({'kind': 'sig', 'who': 'constructor %s.__init__' % row['hcls'],
                     'generated': kd['ctor_sig'], 'real': rs})
        chk.count(1, None)
        chk.dist('signature comparison')
    by_name = dict(((d['helper_class'], d['method']), d) for d in desc)
    for row in world.rows:
        for m in row['methods']:
            d = by_name[(row['hcls'], m)]
            for who, cls, gsig, gasync in (('helper', row['H'], d['hsig'], d['h_async']),
                                           ('underlying', row['U'], d['usig'], d['u_async'])):
                fn = getattr(cls, m)
                rs = real_signature(fn)
                pr = Printer()
                if rs is None:
                    chk.broken_obligation('%s %s.%s: real signature outside the model' % (who, cls.__name__, m))
                    continue
                cases.append('(SigOf %s %s %s %s)' % (sig_term(gsig, pr), sig_term(rs, pr), cbool(gasync),
                                                      cbool(inspect.iscoroutinefunction(fn))))
                meta.append({'kind': 'sig', 'who': '%s %s.%s' % (who, cls.__name__, m),
                             'generated': gsig, 'real': rs})
                chk.count(1, None)
                chk.dist('signature comparison')
    # bind_call against CPython
    for row, m, sig, pos, kw, obs in bind_cases(chk, world):
        pr = Printer()
        o = '(Ok %s)' % env_term(obs[1], pr) if obs[0] else '(Err TypeError)'
        cases.append('(BindCase %s %s %s)' % (sig_term(sig, pr), call_term(pos, kw, pr), o))
        meta.append({'kind': 'bind', 'who': '%s.%s' % (row['ucls'], m), 'pos': len(pos), 'kw': [k for k, _ in kw]})
        chk.count(1, None)
        chk.dist('binding model ' + ('ok' if obs[0] else 'TypeError'))

    codes, errors = coqio.eval_cases('c17', IMPORTS, '', 'c17case', cases, 'c17_eval')
    chk.traces_validated = len(cases)
    for e in errors:
        chk.broken_obligation('case evaluation failed: ' + e)

    violated_helpers = set()
    corr_bad = {}
    for idx, code in sorted(codes.items()):
        mt = meta[idx]
        if mt['kind'] == 'life':
            continue
        if mt['kind'] == 'sig':
            chk.broken_obligation('translator: generated signature of %s differs from inspect.signature: '
                                  'generated %r, real %r' % (mt['who'], mt['generated'], mt['real']))
            continue
        if mt['kind'] == 'bind':
            chk.broken_obligation('bind_call disagrees with CPython on %s with %d positional and keywords %r'
                                  % (mt['who'], mt['pos'], mt['kw']))
            continue
        row, m = mt['row'], mt['m']
        if code & 2:
            violated_helpers.add((row['hcls'], m))
            kw_items = [(n, mt['values'][n]) for n in mt['kw_order']]
            sig_ = classify(row, m, mt['sig'], mt, mt['obs'], code)
            what = ('%s -> %s received %s; reasons: %s' % (
                describe_call(row, m, mt['reg_ns'], mt['pos_names'], kw_items, mt['values']),
                row['ucls'], short_obs(mt['obs']),
                ', '.join(n for b, n in REASONS if code & b)))
            chk.violation(sig_, what, {
                'class': row['hcls'], 'method': m, 'registered_namespace': mt['reg_ns'],
                'registration': mt['reg_mode'], 'positional': mt['pos_names'], 'keywords': mt['kw_order'],
                'values': dict((k, val_spec(v)) for k, v in mt['values'].items()),
                'observed': short_obs(mt['obs']), 'code': code, 'case': cases[idx]})
        elif code & 1:
            corr_bad.setdefault((row['hcls'], m), []).append(idx)
    # lives: report the simplest failing history first - no event dispatched before the failing
    # operation, then a directed world, then the shortest life
    def life_key(i):
        at_ = (codes[i] >> 10) - 1
        return (len([x for x in meta[i]['view'][:max(at_, 0)] if x[0] == 'enter']),
                0 if meta[i]['spec']['kind'] == 'directed' else 1, len(meta[i]['view']), i)
    life_bad = sorted((i for i in codes if meta[i]['kind'] == 'life'), key=life_key)
    life_corr = {}
    for idx in life_bad:
        mt, code = meta[idx], codes[idx]
        bits, at = code & 1023, (code >> 10) - 1
        w, oi, row = mt['world'], mt['oi'], mt['row']
        if at < 0 or at >= len(mt['view']):
            chk.broken_obligation('life of %s: histories of model and implementation differ in length' %
                                  c17life.describe_object(w, oi))
            continue
        e = mt['view'][at]
        if bits & 2:
            replay_ = {'life': mt['spec'], 'object': oi, 'operation': at, 'code': code, 'case': cases[idx]}
            after = any(x[0] == 'enter' for x in mt['view'][:at])
            if e[0] == 'helper':
                _k, st, pos, kw, o = e
                violated_helpers.add((row['hcls'], st['m']))
                hm = {'given': st['pos'] + st['kw'], 'values': dict((k, spec_val(v)) for k, v in st['values'].items())}
                sig_ = classify(row, st['m'], None, hm, o, bits)
                # the suffix marks failures that NEED a dispatched event: not used when the same class of
                # failure was already seen on a call that no event preceded
                if after and not any(v[0] == sig_ for v in chk.violations) and sig_ not in chk.known_hits:
                    sig_ += '-after-dispatch'
                what = '%s; reasons: %s' % (c17life.describe_life(w, oi, upto=at),
                                            ', '.join(n for b, n in REASONS if bits & b))
            else:
                sig_ = 'c17-%s-filed-under-other-namespace' % row['hcls']
                what = c17life.describe_life(w, oi, upto=at)
            chk.violation(sig_, what, replay_)
        elif bits & 1:
            life_corr.setdefault(row['hcls'], []).append((idx, at))
    for hcls, items in sorted(life_corr.items()):
        idx, at = items[0]
        mt = meta[idx]
        text_ = ('correspondence: Forward/Life.v over the generated description k_%s and the real class disagree '
                 'on %d lives, first (operation %d): %s' % (
                     hcls, len(items), at, c17life.describe_life(mt['world'], mt['oi'], upto=at)))
        chk.broken_obligation(text_)
        if not any(h == hcls for h, _m in violated_helpers):
            chk.violation('c17-%s-life-correspondence' % hcls, text_,
                          {'life': mt['spec'], 'object': mt['oi'], 'operation': at, 'case': cases[idx]},
                          no_input=True)
    for (hcls, m), idxs in sorted(corr_bad.items()):
        mt = meta[idxs[0]]
        kw_items = [(n, mt['values'][n]) for n in mt['kw_order']]
        text_ = ('correspondence: generated description of %s.%s and the real method disagree on %d calls, '
                 'first: %s received %s' % (hcls, m, len(idxs),
                                            describe_call(mt['row'], m, mt['reg_ns'], mt['pos_names'], kw_items,
                                                          mt['values']), short_obs(mt['obs'])))
        chk.broken_obligation(text_)
        if (hcls, m) not in violated_helpers:
            # every argument subset has been run on the real class: there is no failing input
            chk.violation('c17-%s.%s-correspondence' % (hcls, m), text_,
                          {'class': hcls, 'method': m, 'case': cases[idxs[0]]}, no_input=True)
    for (hcls, m), info in sorted(model_bad.items()):
        if (hcls, m) not in violated_helpers and (hcls, m) not in corr_bad:
            chk.broken_obligation('theorem about %s.%s fails on the regenerated description (%s) but no call of '
                                  'the real class violates the property' % (hcls, m, info))
    for d in untranslated:
        if (d['helper_class'], d['method']) not in violated_helpers:
            chk.broken_obligation('helper %s.%s is outside the translator whitelist; the dynamic run found no '
                                  'violating call' % (d['helper_class'], d['method']))


def short_obs(o):
    if o['kind'] == 'raise':
        return 'raised ' + o['text'][:200]
    if o['kind'] == 'other':
        return '%d calls' % o['n']
    return '%s(%s)%s' % (o['m'], ', '.join('%s=%r' % (k, v) for k, v in o['bound']),
                         '' if o['same'] else ' [result NOT passed back]')


def diagnose(chk, desc):
    """After a failed proof: which helpers fail the symbolic checker, on which argument subsets."""
    terms = ['bad_idx %s %s' % (d['h'], d['u']) for d in desc]
    rc, out = coqio.eval_print('c17_diag', IMPORTS, '', terms)
    bad = {}
    if rc != 0:
        chk.broken_obligation('diagnosis of the failed proof did not run: ' + out[-800:])
        return bad
    chunks = [c for c in out.split('     = ')[1:]]
    for d, chunk in zip(desc, chunks):
        body = chunk.split(': bool')[0]
        static = body.strip().startswith('(true')
        import ast as _ast
        inner = body[body.index(',') + 1:].strip()
        inner = inner[:inner.rindex(')')].replace('%nat', '').replace(';', ',')
        try:
            idx_lists = _ast.literal_eval(''.join(inner.split()))
        except (ValueError, SyntaxError):
            chk.broken_obligation('diagnosis output not understood for %s: %s' % (d['h'], body[:200]))
            idx_lists = []
        subsets = [[d['hsig'][i][0] for i in l if i < len(d['hsig'])] for l in idx_lists]
        if not static or subsets or not d['translated']:
            subsets.sort(key=len)
            info = 'static shape %s, %d failing argument subsets, smallest: %s' % (
                'ok' if static else 'NOT ok', len(subsets), subsets[0] if subsets else '-')
            bad[(d['helper_class'], d['method'])] = info
            chk.broken_obligation('forwards_okb %s %s = false: %s' % (d['h'], d['u'], info))
    return bad


def diagnose_classes(chk, kdesc):
    """After a failed proof: which class descriptions fail Life.nsclass_okb, and why."""
    terms = ['(nsclass_okb %s, class_diag %s)' % (d['k'], d['k']) for d in kdesc]
    rc, out = coqio.eval_print('c17_kdiag', IMPORTS, '', terms)
    if rc != 0:
        chk.broken_obligation('diagnosis of the class descriptions did not run: ' + out[-800:])
        return
    chunks = out.split('     = ')[1:]
    for d, chunk in zip(kdesc, chunks):
        flat = ''.join(chunk.split(':')[0].split())
        if flat.startswith('(true'):
            continue
        why = []
        if not d['plain']:
            why.append('`namespace` is not a plain instance attribute')
        for lbl in ('attach', 'register', 'dispatch'):
            if any(a == 'namespace' for a, _w in d[lbl]):
                why.append('%s writes `namespace`' % lbl)
        if d['key'] != 'KSelfNamespace':
            why.append('registration key is not <object>.namespace')
        chk.broken_obligation('nsclass_okb %s = false (%s; class_diag = %s): the theorem C17_life_%s no longer '
                              'holds of the regenerated description' % (
                                  d['k'], '; '.join(why) or 'constructor', flat[:120], d['helper_class']))


def replay_life(r):
    from props import c17life
    world = World()
    spec = r['life']

    async def go():
        return await c17life.LifeWorld(world.row(spec['class']), spec).run()
    w = asyncio.run(go())
    oi = r['object']
    term, view = c17life.life_case(w, oi)
    print('life     :', c17life.describe_life(w, oi, upto=r.get('operation')))
    for err in w.errors:
        print('error    :', err)
    return term


def replay(chk, data):
    """Re-run the recorded call on the real class of the current tree and re-judge it in Coq."""
    r = data['replay']
    warnings.simplefilter('ignore', RuntimeWarning)
    for msg in fwd2coq.regenerate():
        print(msg)
    ok, out = coqio.build(['Check/C17Check.v', 'Forward/Gen_forward.v'])
    if not ok:
        print(out[-2000:])
        return 1
    terms = []
    if 'life' in r:
        case = replay_life(r)
        terms = ['c17_eval %s' % case,
                 'match %s with Life k cc ops os => Some (life_explain k cc ops os) | _ => None end' % case]
    elif 'positional' in r:
        world = World()
        row = world.row(r['class'])
        values = dict((k, spec_val(v)) for k, v in r['values'].items())
        pos_vals = [values[n] for n in r['positional']]
        kw_items = [(n, values[n]) for n in r['keywords']]

        async def go():
            return await observe(row, r['method'], r['registered_namespace'], r['registration'],
                                 pos_vals, kw_items)
        self_ns, o = asyncio.run(go())
        print('call     :', describe_call(row, r['method'], r['registered_namespace'], r['positional'],
                                          kw_items, values))
        print('received :', short_obs(o))
        case = fwd_case(row, r['method'], self_ns, pos_vals, kw_items, o)
        terms = ['c17_eval %s' % case, 'c17_explain %s' % case]
    elif 'case' in r:
        terms = ['c17_eval %s' % r['case'], 'c17_explain %s' % r['case']]
    else:
        print(json.dumps(r, indent=1)[:3000])
        return 1
    rc, out = coqio.eval_print('c17_replay', IMPORTS, '', terms)
    import re
    m = re.search(r'=\s*(\d+)', out)
    if rc != 0 or not m:
        print(out)
        return 1
    code = int(m.group(1))
    if 'life' in r and code:
        print('at       : operation %d of the life' % ((code >> 10) - 1))
        code &= 1023
    print('verdict  : c17_eval = %d%s%s' % (
        code, ' [model and implementation disagree]' if code & 1 else '',
        ' [PROPERTY VIOLATED: %s]' % ', '.join(n for b, n in REASONS + [(512, 'filed-under-other-namespace')]
                                               if code & b) if code & 2 else ''))
    if os.environ.get('VERIF_VERBOSE'):
        print(out)
    return 0 if code == 0 else 1
