"""C07 - multi-host pub/sub: a cluster behaves like one server holding all clients."""
import ast

from vt import coqio
from vt.coqio import clist, cbool, cnat
from drivers import cluster
from gen import cluster_hist

IMPORTS = 'From VT Require Import Check.C07Check.'


def trim(ops, steps):
    """Drop the trailing Consume steps that found nothing to read (left over from the final drain)."""
    n = len(ops)
    while n > 0 and ops[n - 1][0] == 'consume' and not steps[n - 1][1]:
        n -= 1
    return ops[:n], steps[:n]


def run_case(wos, ops, strict, mode, immediate):
    steps, finals, d = cluster.run_cluster(wos, ops, mode, immediate)
    ops, steps = trim(list(ops), steps)
    sops = [o for o in ops]
    ssteps, sfinal = cluster.run_single(sops, mode)
    hid = d.host_ids
    st = clist(['(%s, %s, %s)' % (cluster.c_op(o), clist([cluster.c_eff(e, hid) for e in effs]),
                                  clist(['(%s, %s)' % (cnat(k), cluster.c_flat(fl)) for k, fl in pre]))
                for o, effs, pre in steps])
    term = '(mkCase %s %s %s %s %s %s %s)' % (
        clist([cbool(w) for w in wos]), cbool(immediate), cbool(strict), st,
        clist([cluster.c_dump(f) for f in finals]),
        clist([clist([cluster.c_eff(e, {}) for e in effs]) for _, effs in ssteps]),
        cluster.c_dump(sfinal))
    return term, ops, steps, finals, ssteps


def listener_problems(wos, ops, finals):
    out = []
    for k, f in enumerate(finals):
        want = ['_thread'] if any(o[0] == 'connect' and o[1] == k for o in ops) and not wos[k] else []
        if f['bg'] != want:
            out.append('host %d started background tasks %r, expected %r' % (k, f['bg'], want))
    return out


def classify(wos, ops, steps, immediate):
    """(non-trivial key or None, labels for the distribution)."""
    owner = {}
    remote = delayed_past = False
    sid_n = 0
    pending_pub = 0
    for o, effs, _ in steps:
        if o[0] == 'connect' and not wos[o[1]]:
            owner['S%d' % sid_n] = o[1]
            sid_n += 1
        tgt = None
        if o[0] in ('enter', 'leave', 'disconnect'):
            tgt = o[2]
        elif o[0] == 'emit' and isinstance(o[5], str):
            tgt = o[5]
        if tgt in owner and owner[tgt] != o[1]:
            remote = True
        if o[0] == 'emit' and any(e[0] == 'Deliver' and e[1] != o[1] for e in effs):
            remote = True
        if not immediate:
            if o[0] != 'consume' and pending_pub:
                delayed_past = True
            pending_pub += sum(1 for e in effs if e[0] == 'Published')
            if o[0] == 'consume' and effs:
                pending_pub = max(0, pending_pub - 1)
    if not (remote or delayed_past):
        return None
    shape = tuple((o[0], o[1], tuple(sorted(set(e[0] for e in effs)))) for o, effs, _ in steps)
    return (tuple(wos), immediate, shape)


def signature(code, mode, immediate, ops, steps):
    if code & 2:
        parts = [name for bit, name in ((4, 'deliveries'), (8, 'callbacks'), (16, 'membership')) if code & bit]
        return 'c07-%s-%s-%s' % ('immediate' if immediate else 'delayed', mode, '+'.join(parts) or 'property')
    return 'c07-%s-correspondence' % mode


def eval_terms(name, terms, shard=40):
    return coqio.eval_cases(name, IMPORTS, '', 'case', terms, 'c07_eval', shard=shard)


def shrink(wos, ops, strict, mode, immediate, want_prop, budget=14):
    cur = list(ops)
    chunk = max(1, len(cur) // 2)
    rounds = 0
    while rounds < budget and len(cur) > 1:
        rounds += 1
        cands, terms = [], []
        for i in range(0, len(cur), chunk):
            cand = cur[:i] + cur[i + chunk:]
            if not cand:
                continue
            try:
                terms.append(run_case(wos, cand, strict, mode, immediate)[0])
                cands.append(cand)
            except Exception:
                pass
        if not terms:
            break
        codes, errors = eval_terms('c07_shr', terms, shard=len(terms))
        if errors:
            break
        hit = None
        for j, cand in enumerate(cands):
            c = codes.get(j, 0)
            if (c & 2) if want_prop else c:
                hit = cand
                break
        if hit is not None:
            cur = hit
            chunk = max(1, min(chunk, len(cur) // 2))
        elif chunk == 1:
            break
        else:
            chunk = max(1, chunk // 2)
    return cur


def batch(chk, name, rng, n, knobs_list, modes=('sync', 'async')):
    """Generate n histories per knob set, run them on every mode, evaluate. Returns bad list."""
    terms, meta = [], []
    for knobs in knobs_list:
        for i in range(n):
            wos, ops, strict = cluster_hist.gen_history(rng, knobs)
            immediate = not knobs.delayed
            for mode in modes:
                try:
                    term, ops2, steps, finals, ssteps = run_case(wos, ops, strict, mode, immediate)
                except Exception as e:
                    chk.broken_obligation('driver error (%s, %s): %r' % (mode, ops[:6], e))
                    continue
                # the listener must have been requested (exactly once) by every server that accepted a transport
                for msg in listener_problems(wos, ops2, finals):
                    chk.violation('c07-%s-listener-start' % mode, msg,
                                  {'py': repr((wos, ops2, strict, mode, immediate))})
                terms.append(term)
                meta.append((wos, ops2, strict, mode, immediate, steps))
                key = classify(wos, ops2, steps, immediate)
                key = key and (mode,) + key
                chk.count(1, key, {'mode': mode, 'immediate': immediate, 'hosts': wos,
                                   'ops': [repr(o)[:80] for o in ops2[:10]]} if i < 1 and mode == 'sync' else None)
                chk.dist('%s %s %s' % (mode, 'immediate' if immediate else 'delayed', 'strict' if strict else 'wide'))
                for o in ops2:
                    chk.dist('op ' + o[0])
                chk.dist('hosts %d+%d' % (wos.count(False), wos.count(True)))
    codes, errors = eval_terms(name, terms)
    chk.traces_validated += len(terms)
    for e in errors:
        chk.broken_obligation('case evaluation failed: ' + e)
    return [(meta[i], code) for i, code in sorted(codes.items())]


def knob_sets(thorough):
    K = cluster_hist.Knobs
    n_ops = 26 if thorough else 20
    cbw = {'connect': 1.0, 'enter': 1.0, 'leave': 0.5, 'close_room': 0.3, 'emit': 1.5, 'emit_cb': 6.0,
           'ack': 7.0, 'disconnect': 0.8, 'consume': 0.0}
    return [K(n_ops=n_ops), K(n_ops=n_ops, delayed=True),
            K(n_ops=n_ops, strict=False), K(n_ops=n_ops, strict=False, delayed=True),
            K(n_ops=n_ops, w=dict(cbw)), K(n_ops=n_ops, w=dict(cbw), delayed=True)]


def run(chk):
    rng = chk.rng
    chk.rule = ('random histories over connect / enter / leave / close_room / disconnect / emit(room None|name|sid|list, '
                'skip_sid, callback to one sid) / client ACK issued on any of 2-4 real PubSubManager (and AsyncPubSubManager) '
                'hosts, emits also from a write-only manager, under immediate consumption and under random per-host '
                'consumption schedules; non-trivial = a target client on another host than the issuer, or a consumption '
                'delayed past another operation; distinct by (placement, per-step op kind/host/effect kinds); plus histories '
                'whose servers run application handlers (connect / event / disconnect handlers, functions or class-based '
                'namespaces, calling enter_room / leave_room / rooms / emit / close_room / disconnect) with clients ending by '
                'DISCONNECT packet, transport loss and disconnect(), compared with Cluster/Handlers.v (non-trivial = an API '
                'call made while the calling handler\'s own client is being disconnected)')
    chk.trusted_base = ['Coq 8.16.1 kernel + vm_compute', 'hand models Cluster/PubSub.v and Cluster/Handlers.v over Manager/Manager.v',
                        'harness/drivers/cluster.py (real PubSubManager/AsyncPubSubManager subclasses over a pickled in-memory '
                        'channel, real socketio.Server/AsyncServer over real engineio sockets built by hand, one global '
                        'generate_id counter, _thread() called once per consumed message)',
                        'history generator gen/cluster_hist.py', 'socketio packet decoder used to read the frames (C01)',
                        'pickle round trip of the message dicts']
    chk.assumptions = ['the broker is one ordered reliable channel delivering every message to every listening host',
                       'host ids are pairwise distinct (uuid4)', 'engine.io transports stay open during a history',
                       'the property statement (cluster = one server, bit 2) is evaluated on histories without application '
                       'handlers; histories with handlers are tied to Cluster/Handlers.v by correspondence only (handlers never '
                       'raise and return None; when they run and with what arguments is C04/C11)',
                       'callbacks are used as supported: addressed to one client by its own sid',
                       'ack ids are opaque to clients: deliveries are compared with ack ids hidden']
    chk.prove(targets=['Check/C07Check.v', 'Check/C07HCheck.v'])
    n = 700 if chk.thorough else 36
    ks = knob_sets(chk.thorough)
    bad = batch(chk, 'c07', rng, n, ks)
    if bad and not any(code & 2 for _, code in bad):
        # only correspondence failures: look harder for an input on which the property itself fails
        more = batch(chk, 'c07_more', rng, 3 * n, ks[:2])
        bad += [b for b in more if b[1] & 2]
    report(chk, bad)
    hreport(chk, [b for b in handler_batch(chk, 'c07h', rng, 240 if chk.thorough else 30) if b[1]])


def report(chk, bad, max_sigs=6):
    seen = {}
    for meta, code in bad:
        wos, ops, strict, mode, immediate, steps = meta
        sig = signature(code, mode, immediate, ops, steps)
        if sig not in seen and len(seen) < max_sigs:
            seen[sig] = (meta, code)
    for sig, (meta, code) in seen.items():
        wos, ops, strict, mode, immediate, steps = meta
        try:
            small = shrink(wos, ops, strict, mode, immediate, bool(code & 2))
        except Exception:
            small = ops
        replay = {'py': repr((wos, small, strict, mode, immediate))}
        if code & 2:
            chk.violation(sig, 'the %s cluster (%s consumption) violates the C07 checker on this history'
                          % (mode, 'immediate' if immediate else 'delayed'), replay)
        else:
            chk.broken_obligation('correspondence: Cluster/PubSub.v and the %s cluster disagree on %r' % (mode, small[:12]))
            chk.violation(sig, 'model and implementation disagree', replay, no_input=True)


def replay(chk, data):
    if data['replay'].get('handlers'):
        return hreplay(chk, data)
    wos, ops, strict, mode, immediate = ast.literal_eval(data['replay']['py'])
    term, ops, steps, finals, ssteps = run_case(wos, ops, strict, mode, immediate)
    codes, errors = eval_terms('c07_replay', [term])
    code = codes.get(0, 0)
    print('checker code (bit1 = model/implementation disagree, bit2 = property violated):', code, errors)
    rc, out = coqio.eval_print('c07_replay', IMPORTS, '', ['first_diff %s' % term])
    print(out[-1500:])
    for (o, effs, _), (_, seffs) in zip(steps, ssteps):
        print(o, '=>', effs, '| single:', seffs)
    for f in finals:
        print(f)
    lp = listener_problems(wos, ops, finals)
    for msg in lp:
        print('listener:', msg)
    return 0 if code == 0 and not errors and not lp else 1


# ---------------------------------------------------------------- histories with application handlers
HIMPORTS = 'From VT Require Import Check.C07HCheck.'


def run_hcase(wos, ops, app, mode, immediate):
    steps, finals, d = cluster.run_cluster(wos, ops, mode, immediate, app=app)
    ops, steps = trim(list(ops), steps)
    hid = d.host_ids
    st = clist(['(%s, %s)' % (cluster.c_xop(o), clist([cluster.c_heff(e, hid) for e in effs])) for o, effs, _ in steps])
    term = '(mkHCase %s %s %s %s %s)' % (clist([cbool(w) for w in wos]), cbool(immediate), cluster.c_app(app), st,
                                         clist([cluster.c_dump(f) for f in finals]))
    return term, ops, steps, finals


def hclassify(ops, steps):
    """Non-trivial: some handler made an API call while its own client was being disconnected."""
    inside = False
    for o, effs, _ in steps:
        cur = None
        for e in effs:
            if e[0] == 'Handler':
                cur = e[3]
            elif e[0] == 'Result' and cur == 'disconnect':
                inside = True
    if not inside:
        return None
    return tuple((o[0], o[1], tuple(e[0] if e[0] != 'Handler' else 'H-' + e[3] for e in effs)) for o, effs, _ in steps)


def handler_batch(chk, name, rng, n, modes=('sync', 'async')):
    """n histories with application handlers per knob set, run on every mode, compared with Cluster/Handlers.v."""
    terms, meta = [], []
    for knobs in handler_knob_sets()[:2]:
        for i in range(n):
            wos, ops, app = cluster_hist.gen_handler_history(rng, knobs)
            immediate = not knobs.delayed
            for mode in modes:
                try:
                    term, ops2, steps, finals = run_hcase(wos, ops, app, mode, immediate)
                except Exception as e:
                    chk.broken_obligation('driver error (handlers, %s, %s): %r' % (mode, ops[:6], e))
                    continue
                for msg in listener_problems(wos, ops2, finals):
                    chk.violation('c07-%s-listener-start' % mode, msg,
                                  {'handlers': True, 'py': repr((wos, ops2, app, mode, immediate))})
                terms.append(term)
                meta.append((wos, ops2, app, mode, immediate))
                key = hclassify(ops2, steps)
                chk.count(1, key and (mode, immediate) + key,
                          {'mode': mode, 'immediate': immediate, 'hosts': wos, 'handlers': repr(app)[:200],
                           'ops': [repr(o)[:80] for o in ops2[:10]]} if i < 1 and mode == 'sync' else None)
                chk.dist('handlers %s %s' % (mode, 'immediate' if immediate else 'delayed'))
                for o in ops2:
                    chk.dist('op ' + o[0])
    codes, errors = coqio.eval_cases(name, HIMPORTS, '', 'hcase', terms, 'c07h_eval', shard=40)
    chk.traces_validated += len(terms)
    for e in errors:
        chk.broken_obligation('case evaluation failed: ' + e)
    return [(meta[i], code) for i, code in sorted(codes.items())]


def hshrink(wos, ops, app, mode, immediate, budget=14):
    """Smallest op list (greedy chunk removal) on which model and implementation still disagree."""
    cur = list(ops)
    chunk = max(1, len(cur) // 2)
    rounds = 0
    while rounds < budget and len(cur) > 1:
        rounds += 1
        cands, terms = [], []
        for i in range(0, len(cur), chunk):
            cand = cur[:i] + cur[i + chunk:]
            if not cand:
                continue
            try:
                terms.append(run_hcase(wos, cand, app, mode, immediate)[0])
                cands.append(cand)
            except Exception:
                pass
        if not terms:
            break
        codes, errors = coqio.eval_cases('c07h_shr', HIMPORTS, '', 'hcase', terms, 'c07h_eval', shard=len(terms))
        if errors:
            break
        hit = next((cand for j, cand in enumerate(cands) if codes.get(j, 0)), None)
        if hit is not None:
            cur = hit
            chunk = max(1, min(chunk, len(cur) // 2))
        elif chunk == 1:
            break
        else:
            chunk = max(1, chunk // 2)
    return cur


def hreport(chk, bad):
    seen = set()
    for meta, code in bad:
        wos, ops, app, mode, immediate = meta
        sig = 'c07-%s-handlers-correspondence' % mode
        if sig in seen:
            continue
        seen.add(sig)
        try:
            small = hshrink(wos, ops, app, mode, immediate)
        except Exception:
            small = ops
        chk.broken_obligation('correspondence: Cluster/Handlers.v and the %s cluster with application handlers disagree on %r'
                              % (mode, small[:12]))
        chk.violation(sig, 'model and implementation disagree (application handlers calling the room API)',
                      {'handlers': True, 'py': repr((wos, small, app, mode, immediate))}, no_input=True)


def hreplay(chk, data):
    wos, ops, app, mode, immediate = ast.literal_eval(data['replay']['py'])
    term, ops, steps, finals = run_hcase(wos, ops, app, mode, immediate)
    codes, errors = coqio.eval_cases('c07h_replay', HIMPORTS, '', 'hcase', [term], 'c07h_eval')
    code = codes.get(0, 0)
    print('checker code (bit1 = model/implementation disagree):', code, errors)
    rc, out = coqio.eval_print('c07h_replay', HIMPORTS, '', ['hfirst_diff %s' % term])
    print(out[-1500:])
    print('handlers:', app)
    for o, effs, _ in steps:
        print(o, '=>', effs)
    for f in finals:
        print(f)
    return 0 if code == 0 and not errors else 1


# ---------------------------------------------------------------- C14 parity (asyncio vs threaded)
def _plain_msg(m, host_ids):
    """A published dict with the uuid host id replaced by the host index (as printed for the model)."""
    d = dict(m)
    d['host_id'] = host_ids.get(d.get('host_id'), 98)
    if isinstance(d.get('args'), tuple):
        d['args'] = list(d['args'])
    return ('msg', sorted(d.items(), key=lambda kv: kv[0]))


def _plain_eff(e, host_ids):
    k = e[0]
    if k == 'Published':
        return ('Published', _plain_msg(e[1], host_ids))
    if k == 'Callback':
        return ('Callback', e[1], e[2], list(e[3]))
    return tuple(e)


def _plain_trace(wos, ops, mode, immediate):
    steps, finals, d = cluster.run_cluster(wos, ops, mode, immediate)
    ops2, steps = trim(list(ops), steps)
    out = []
    for o, effs, _ in steps:
        out.append(('op', repr(o), [_plain_eff(e, d.host_ids) for e in effs]))
    for k, f in enumerate(finals):
        out.append(('final', k, f['rooms'], f['pending'],
                    [(key, nxt, [(i, list(c)) for i, c in ents]) for key, nxt, ents in f['callbacks']],
                    f['cur'], list(f['bg'])))
    return out


def parity_traces(rng, n):
    """n cluster histories, each run on the PubSubManager cluster and on the AsyncPubSubManager cluster;
    returns [(kind, scenario_repr, trace_sync, trace_async)] of plain Python values: identical behaviour
    gives equal lists.  No chk.* calls; deterministic in rng."""
    ks = knob_sets(False)
    out = []
    for i in range(n):
        knobs = ks[i % len(ks)]
        wos, ops, strict = cluster_hist.gen_history(rng, knobs)
        immediate = not knobs.delayed
        ts = _plain_trace(wos, ops, 'sync', immediate)
        ta = _plain_trace(wos, ops, 'async', immediate)
        rep = 'hosts=%r %s ops=%s' % (wos, 'immediate' if immediate else 'delayed',
                                      repr([o[:3] for o in ops[:12]])[:300])
        out.append(('pubsub-cluster', rep, ts, ta))
    out.extend(handler_parity_traces(rng, n))
    return out


# ---- histories with application handlers (connect / event / disconnect handlers calling the room API)
def handler_knob_sets():
    K = cluster_hist.HKnobs
    return [K(), K(delayed=True), K(), K(n_ops=22, delayed=True)]


def _handler_trace(wos, ops, app, mode, immediate):
    steps, finals, d = cluster.run_cluster(wos, ops, mode, immediate, app=app)
    ops2, steps = trim(list(ops), steps)
    out = []
    for o, effs, _ in steps:
        out.append(('op', repr(o), [_plain_eff(e, d.host_ids) for e in effs]))
    for k, f in enumerate(finals):
        out.append(('final', k, f['rooms'], f['pending'], f['cur'], list(f['bg'])))
    return out


def handler_parity_traces(rng, n):
    """n cluster histories whose application handlers (functions or class-based namespaces) call enter_room /
    leave_room / rooms / emit / close_room / disconnect, with clients ending by DISCONNECT packet, transport
    loss and server disconnect(); run on the threaded and on the asyncio stack.  The trace holds, per
    operation, the messages published, the packets per client, the handler invocations and every API result
    (rooms(sid) read inside the handler included), and the final tables of every host."""
    ks = handler_knob_sets()
    out = []
    for i in range(n):
        knobs = ks[i % len(ks)]
        wos, ops, app = cluster_hist.gen_handler_history(rng, knobs)
        immediate = not knobs.delayed
        ts = _handler_trace(wos, ops, app, 'sync', immediate)
        ta = _handler_trace(wos, ops, app, 'async', immediate)
        out.append(('pubsub-handlers', repr((wos, ops, app, immediate)), ts, ta))
    return out


def _hpair_term(wos, ops, app, immediate):
    """One history on both stacks as a Check/C07HCheck.v hpair term (None when trimming makes the op lists differ:
    then the plain traces already differ and the PGen comparison reports it)."""
    ss, fs, ds = cluster.run_cluster(wos, ops, 'sync', immediate, app=app)
    sa, fa, da = cluster.run_cluster(wos, ops, 'async', immediate, app=app)
    n = max(len(trim(list(ops), ss)[0]), len(trim(list(ops), sa)[0]))
    ops2, ss, sa = list(ops)[:n], ss[:n], sa[:n]

    def obs(steps, d):
        return clist([clist([cluster.c_heff(e, d.host_ids) for e in effs]) for _, effs, _ in steps])
    term = '(mkHPair %s %s %s %s %s %s %s %s)' % (
        clist([cbool(w) for w in wos]), cbool(immediate), cluster.c_app(app), clist([cluster.c_xop(o) for o in ops2]),
        obs(ss, ds), obs(sa, da), clist([cluster.c_dump(f) for f in fs]), clist([cluster.c_dump(f) for f in fa]))
    return term, ops2, ss


def parity_model_cases(rng, n):
    """For C14: n histories with application handlers, each run on the threaded and on the asyncio cluster and
    printed as ONE typed case that Coq compares with Cluster/Handlers.v (bit 1, each member) and member against
    member (bit 2).  Returns what coqio.eval_cases needs plus per-case metadata."""
    ks = handler_knob_sets()
    terms, meta = [], []
    for i in range(n):
        knobs = ks[i % len(ks)]
        wos, ops, app = cluster_hist.gen_handler_history(rng, knobs)
        immediate = not knobs.delayed
        term, ops2, steps = _hpair_term(wos, ops, app, immediate)
        terms.append(term)
        meta.append({'scenario': repr((wos, ops2, app, immediate)), 'key': hclassify(ops2, steps)})
    return {'kind': 'pubsub-handlers-model', 'imports': HIMPORTS, 'case_type': 'hpair', 'fn': 'hpair_eval',
            'terms': terms, 'meta': meta}


def parity_shrink(kind, scen):
    """Greedy chunk removal on a handler history whose two plain traces differ; returns (scenario_repr, ts, ta)
    of the smallest history found that still differs (the caller has Coq confirm it), or None."""
    if not kind.startswith('pubsub-handlers'):
        return None
    wos, ops, app, immediate = ast.literal_eval(scen)

    def differ(cand):
        try:
            ts = _handler_trace(wos, cand, app, 'sync', immediate)
            ta = _handler_trace(wos, cand, app, 'async', immediate)
        except Exception:
            return None
        return (ts, ta) if ts != ta else None
    cur = list(ops)
    best = differ(cur)
    if best is None:
        return None
    chunk = max(1, len(cur) // 2)
    while len(cur) > 1:
        hit = None
        for i in range(0, len(cur), chunk):
            cand = cur[:i] + cur[i + chunk:]
            r = differ(cand) if cand else None
            if r is not None:
                hit, best = cand, r
                break
        if hit is not None:
            cur = hit
            chunk = max(1, min(chunk, len(cur) // 2))
        elif chunk == 1:
            break
        else:
            chunk = max(1, chunk // 2)
    return repr((wos, cur, app, immediate)), best[0], best[1]


def parity_replay(kind, scen):
    """Re-run a handler history on both stacks and show where they differ; 1 when they do."""
    wos, ops, app, immediate = ast.literal_eval(scen)
    ts = _handler_trace(wos, ops, app, 'sync', immediate)
    ta = _handler_trace(wos, ops, app, 'async', immediate)
    print('hosts (write-only flags):', wos, '| consumption:', 'immediate' if immediate else 'delayed')
    print('handlers:', app)
    bad = 0
    for a, b in zip(ts, ta):
        if a == b:
            print(' ', a[:2], a[2] if a[0] == 'op' else a[2:])
        else:
            bad += 1
            print('  DIFFERS\n    threaded:', a, '\n    asyncio :', b)
    if len(ts) != len(ta):
        bad += 1
        print('  trace lengths differ: %d vs %d' % (len(ts), len(ta)))
    return 1 if bad else 0
