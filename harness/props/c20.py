"""C20 - threaded server: concurrent terminations of one client are safe.

Tie: the REAL threaded socketio.Server is run under the deterministic thread scheduler of
drivers/sched_srv.py (pre-emption in front of every access the terminating paths make to the
client manager, to eio.send, to the disconnect handler, to server.environ and to
server._disconnect_lock, which is replaced on the instance by a lock that never blocks for real:
a thread waiting for it is simply not enabled).  A probe decides which code is under test: with
the lock around is_connected + pre_disconnect the runs are compared with the model granularity
GLocked, without it (the code before the repair, or a tree from which the lock was removed)
with GThread - there the two signatures `double-check-window-*` reappear.  Every run is
printed as a Gallina `ccase` (scenario, schedule, observed label trace, final listings); inside
Coq the model of coq/Conc/ServerConc.v is run on the same scenario and schedule
(correspondence, bit 1) and the property checker of coq/Check/C20Check.v is evaluated on what
the implementation did (bit 2, higher bits = clause / signature)."""
import itertools

from vt import coqio
from vt.coqio import clist, cbool, copt
from drivers import sched_srv as S

IMPORTS = 'From VT Require Import Check.C20Check.'
CLAUSES = [
    (4, 'handler-twice', 'the disconnect handler ran more than once for one client'),
    (8, 'handler-never', 'every cause has finished and the disconnect handler of a client it was aimed at never ran'),
    (16, 'exception-escapes', 'an exception escaped a terminating thread / task'),
    (32, 'residue', 'every cause has finished and rooms / pending_disconnect / callbacks / environ still mention the client'),
    (64, 'bystander-affected', 'a client no cause was aimed at lost a membership or its callbacks, or had its handler run'),
    (128, 'bad-reason', 'a disconnect handler ran for nobody or with a reason that names no cause in progress'),
]

# ---------------------------------------------------------------------------------------
# scenario language
# ---------------------------------------------------------------------------------------
LONE = [('connect', 'e0', '/')]
FULL = [('connect', 'e0', '/'), ('connect', 'e0', '/b'), ('connect', 'e1', '/'),
        ('enter', 'S0', '/', 'r1'), ('ack', 'S0', '/')]
CAUSE = {'api': ('api', 'S0', '/'), 'cli': ('client', 'e0', '/'), 'loss': ('loss', 'e0', 'transport close'),
         'ocli': ('client', 'e0', '/b'), 'oapi': ('api', 'S1', '/b')}
# TWO: one transport, alone on the server, with a session in each of two namespaces (S0 in "/a", S1 in
# "/b"): every terminating action on one session is "disconnect of another namespace of the same
# transport" for the other one, and each namespace table disappears with its only session.
TWO = [('connect', 'e0', '/a'), ('connect', 'e0', '/b')]
CAUSE.update({'a.api': ('api', 'S0', '/a'), 'a.cli': ('client', 'e0', '/a'),
              'b.api': ('api', 'S1', '/b'), 'b.cli': ('client', 'e0', '/b')})


def scenario(setup, names, raising=()):
    return {'setup': [list(x) for x in setup], 'raising': list(raising),
            'causes': [list(CAUSE[n]) for n in names]}


def q(s):
    return '(q "%s")' % s if isinstance(s, str) and s.isascii() and '"' not in s and s.isprintable() \
        else coqio.cstr(s)


def setup_terms(setup):
    out, n = [], 0
    for op in setup:
        if op[0] == 'connect':
            out.append('SConnect %s %s %s' % (q(op[1]), q(op[2]), q('S%d' % n)))
            n += 1
        elif op[0] == 'enter':
            out.append('SEnter %s %s %s' % (q(op[1]), q(op[2]), q(op[3])))
        else:
            out.append('SAck %s' % q(op[1]))
    return clist(out)


def cause_term(c):
    # 'apiq' = disconnect(sid, namespace, ignore_queue=True): the same model task (for the base Manager the
    # unlocked pre-check is_connected is the same function of the state as can_disconnect)
    return '%s %s %s' % ({'api': 'CApi', 'apiq': 'CApi', 'client': 'CClient', 'loss': 'CLoss'}[c[0]], q(c[1]), q(c[2]))


class Unprintable(Exception):
    pass


def _s(x):
    if not isinstance(x, str):
        raise Unprintable()
    return q(x)


def _os(x):
    return 'None' if x is None else '(Some %s)' % _s(x)


def lbl_term(l):
    try:
        k = l[0]
        if k == 'Namespaces':
            return '(LNamespaces %s)' % clist([_s(x) for x in l[1]])
        if k == 'Lookup':
            return '(LLookup %s %s %s)' % (_s(l[1]), _s(l[2]), _os(l[3]))
        if k == 'Check':
            if not isinstance(l[3], bool):
                raise Unprintable()
            return '(LCheck %s %s %s)' % (_os(l[1]), _s(l[2]), cbool(l[3]))
        if k == 'Mark':
            r = '(Ok %s)' % _os(l[3][1]) if l[3][0] == 'ok' else '(Err %s)' % l[3][1]
            return '(LMark %s %s %s)' % (_s(l[1]), _s(l[2]), r)
        if k == 'Send':
            return '(LSend %s %s)' % (_os(l[1]), _s(l[2]))
        if k == 'Handler':
            return '(LHandler %s %s %s)' % (_s(l[1]), _s(l[2]), _s(l[3]))
        if k == 'Disc':
            return '(LDisc %s %s)' % (_s(l[1]), _s(l[2]))
        if k == 'Env':
            return '(LEnv %s %s)' % (_s(l[1]), cbool(l[2]))
        if k == 'Raise':
            return '(LRaise %s)' % l[1]
        if k == 'Acquire':
            return 'LAcquire'
        if k == 'Other':
            return '(LOther %d)' % l[1]
    except (Unprintable, IndexError, TypeError):
        return '(LOther 9)'
    raise ValueError(l)


def dump_term(d):
    def room(r):
        return 'PNone' if r is None else coqio.pv(r)
    try:
        rooms = clist(['(%s, %s)' % (_s(ns), clist(['(%s, %s)' % (room(r), clist(['(%s, %s)' % (_s(s), _s(e))
                                                                                  for s, e in items]))
                                                     for r, items in rm])) for ns, rm in d['rooms']])
        pend = clist(['(%s, %s)' % (_s(ns), clist([_s(x) for x in l])) for ns, l in d['pending']])
        return '(mkDump %s %s %s %s)' % (rooms, pend, clist([_s(x) for x in d['callbacks']]),
                                         clist([_s(x) for x in d['environ']]))
    except (Unprintable, TypeError):
        return '(mkDump [] [(q "?", [])] [] [])'


def case_term(gran, sc_name, r):
    """sc_name: the Gallina names (su_k, rs_k, cs_k) of the scenario's setup / raising / causes."""
    return '(Case %s %s %s %s %s %s %s %s)' % (
        gran, sc_name[0], sc_name[1], sc_name[2], clist([str(c) for c in r.schedule]),
        clist([clist([lbl_term(l) for l in step]) for step in r.trace]),
        dump_term(r.final), cbool(r.alldone))


class Defs:
    """Scenario constants shared by every case of a cases file."""

    def __init__(self):
        self.lines = ['Local Open Scope nat_scope.', 'Local Open Scope string_scope.', 'Definition q := s2l.']
        self.names = {}

    def name(self, sc):
        key = repr(sc)
        if key not in self.names:
            k = len(self.names)
            self.lines.append('Definition su_%d := %s.' % (k, setup_terms(sc['setup'])))
            self.lines.append('Definition rs_%d : list str := %s.' % (k, clist([q(x) for x in sc['raising']])))
            self.lines.append('Definition cs_%d := %s.' % (k, clist([cause_term(c) for c in sc['causes']])))
            self.names[key] = ('su_%d' % k, 'rs_%d' % k, 'cs_%d' % k)
        return self.names[key]

    def text(self):
        return '\n'.join(self.lines)


def switches_in_flight(r):
    """Steps taken by a task while another task has started and not finished."""
    started, n = set(), 0
    n_tasks = max(r.schedule) + 1 if r.schedule else 0
    left = {i: sum(1 for c, l in zip(r.schedule, r.trace) if c == i and l) for i in range(n_tasks)}
    for ch, labels in zip(r.schedule, r.trace):
        if not labels:
            continue
        if any(i != ch and i in started and left[i] > 0 for i in range(n_tasks)):
            n += 1
        started.add(ch)
        left[ch] -= 1
    return n


def signature(code, mode):
    """Stable structural class of a violating run.  The two classes of the known check-then-mark
    defect absorb only the clauses that defect explains (handler twice / KeyError in
    pre_disconnect, the pending_disconnect leftover); anything else stays visible."""
    names = [name for bit, name, _ in CLAUSES if code & bit]
    if code & 256:
        extra = [name for bit, name, _ in CLAUSES if code & bit and bit in (8, 64, 128)]
        if code & 16 and not code & 512:
            extra.append('exception-escapes')
        if code & 4:
            base = 'double-check-window-handler-twice'
        elif code & 512 and code & 16 and code & 32:
            base = 'double-check-window-keyerror-pending-leftover'
        else:
            return 'double-check-window-' + '+'.join(names)
        return base + ''.join('+' + x for x in extra)
    return '+'.join(names) + '-without-double-check' + ('' if mode == 'threads' else '@asyncio') + \
        ('+gave-up-on-busy-lock' if code & 1024 else '')


def what_of(code):
    return '; '.join(text for bit, _, text in CLAUSES if code & bit) + \
        ('; two tasks saw is_connected = True for the same client before either called pre_disconnect'
         if code & 256 else '') + \
        ('; a thread asked for server._disconnect_lock without blocking while another thread held it and went on '
         'without the lock' if code & 1024 else '')


# ---------------------------------------------------------------------------------------
# the refutation witnesses of coq/Conc/ConcProofs.v (C20_refuted), replayed on the real server
# ---------------------------------------------------------------------------------------
WITNESSES = [
    ('handler_twice', scenario(LONE, ['api', 'cli']), [0, 1, 1, 0, 1, 0, 1, 0, 1, 0], 4 | 256),
    ('keyerror_leftover', scenario(LONE, ['api', 'cli']), [0, 1, 1, 1, 1, 1, 0], 16 | 32 | 256 | 512),
]


# directed schedules of the code WITH the lock (two sessions of one transport): thread 0 =
# disconnect(S1, "/b") is pre-empted INSIDE the critical section (after its locked is_connected),
# thread 1 (transport loss / DISCONNECT "/a") reaches its own acquire: it has to wait (choices of a
# waiting thread are no-ops, in the model and under the scheduler) and then still terminates "/a".
LOCKED_WITNESSES = [
    ('lock_held_for_other_namespace loss', scenario(TWO, ['b.api', 'loss']),
     [0, 0, 0, 1, 1, 1, 1, 0, 1, 1, 1, 0, 0, 0, 1, 1, 1, 1, 1, 1], 0),
    ('lock_held_for_other_namespace packet', scenario(TWO, ['b.api', 'a.cli']),
     [0, 0, 0, 1, 1, 1, 0, 1, 1, 1, 0, 0, 0, 1, 1], 0),
    ('lock_held_by_packet_of_other_namespace', scenario(TWO, ['b.cli', 'a.api', 'loss']),
     [0, 0, 0, 1, 1, 2, 2, 2, 1, 0, 2, 1, 2, 0, 0, 1, 1, 1, 1, 2, 2, 2, 2, 2, 2, 2, 2, 2, 1, 1], 0),
]


def queue_variants(entries):
    """Every `api` cause also as disconnect(sid, namespace, ignore_queue=True) (cause kind 'apiq'): all api
    causes of the entry switched, and - when there are two or more - only the first one switched."""
    out = []
    for name, sc, how in entries:
        idx = [i for i, c in enumerate(sc['causes']) if c[0] == 'api']
        for sel in ([idx] + ([idx[:1]] if len(idx) > 1 else [])) if idx else []:
            sc2 = dict(sc, causes=[['apiq'] + list(c[1:]) if i in sel else list(c)
                                   for i, c in enumerate(sc['causes'])])
            out.append(('%s [ignore_queue=True: cause %s]' % (name, ','.join(map(str, sel))), sc2, how))
    return out


LOCKED_WITNESSES += [(name + ' [ignore_queue=True]', sc2, sched, expect)
                     for (name, sc, sched, expect) in LOCKED_WITNESSES
                     for (_, sc2, _) in queue_variants([(name, sc, None)])[:1]]


def probe_locked():
    """Which threaded code is under test: does it take server._disconnect_lock around
    is_connected + pre_disconnect (-> model granularity GLocked) or not (-> GThread, the code
    before the repair)?  Decided by what one disconnect() and one DISCONNECT packet do."""
    seen = []
    for names in (('api',), ('cli',)):
        r = S.run_threads(scenario(LONE, names), [], extend=lambda en: en[0])
        seen.append(any(l == ('Acquire',) for step in r.trace for l in step))
    return all(seen), seen


def thread_gran():
    locked, seen = probe_locked()
    return ('GLocked' if any(seen) else 'GThread'), seen


def plan(thorough):
    """(name, scenario, how) with how = 'all' | ('bounded', k, walks)."""
    out = []
    for names in (('api', 'cli'), ('api', 'api'), ('cli', 'cli'), ('api', 'loss'), ('cli', 'loss')):
        out.append(('lone ' + '+'.join(names), scenario(LONE, names), 'all'))
    out.append(('lone api+cli raising', scenario(LONE, ('api', 'cli'), raising=['S0']), 'all'))
    out.append(('lone cli+loss raising', scenario(LONE, ('cli', 'loss'), raising=['S0']),
                'all' if thorough else ('bounded', 2, 40)))
    for names in (('api', 'cli'), ('api', 'api'), ('cli', 'cli'), ('api', 'ocli'), ('cli', 'oapi')):
        out.append(('full ' + '+'.join(names), scenario(FULL, names), 'all'))
    for names in (('api', 'oapi'), ('cli', 'ocli'), ('ocli', 'oapi')):
        out.append(('full ' + '+'.join(names), scenario(FULL, names), 'all' if thorough else ('bounded', 2, 40)))
    for names in (('api', 'loss'), ('cli', 'loss'), ('loss', 'ocli'), ('loss', 'oapi')):
        out.append(('full ' + '+'.join(names), scenario(FULL, names), 'all' if thorough else ('bounded', 2, 60)))
    out.append(('full api+loss raising', scenario(FULL, ('api', 'loss'), raising=['S0', 'S1']),
                ('bounded', 3, 300) if thorough else ('bounded', 1, 30)))
    # two sessions of ONE transport (namespaces "/a" and "/b"): a cause for one namespace together with a
    # cause for the other one, with the loss of the transport, and three at a time; pre-emption at every
    # access, in particular inside the critical sections of server._disconnect_lock
    for names in (('a.api', 'b.api'), ('a.api', 'b.cli'), ('a.cli', 'b.api'), ('a.cli', 'b.cli')):
        out.append(('two ' + '+'.join(names), scenario(TWO, names), 'all'))
    for names in (('loss', 'a.api'), ('loss', 'b.api'), ('loss', 'b.cli')):
        out.append(('two ' + '+'.join(names), scenario(TWO, names), 'all' if thorough else ('bounded', 2, 60)))
    out.append(('two loss+b.api raising', scenario(TWO, ('loss', 'b.api'), raising=['S0', 'S1']),
                ('bounded', 3, 300) if thorough else ('bounded', 1, 30)))
    for names in (('a.cli', 'b.api', 'loss'), ('a.api', 'b.api', 'loss'), ('a.api', 'b.cli', 'loss'),
                  ('a.cli', 'b.cli', 'loss'), ('a.api', 'a.cli', 'b.api'), ('a.api', 'b.api', 'b.cli')):
        out.append(('two ' + '+'.join(names), scenario(TWO, names),
                    ('bounded', 2, 800) if thorough else ('bounded', 1, 60)))
    if thorough:
        for names in itertools.combinations_with_replacement(['api', 'cli', 'loss'], 3):
            if names.count('loss') <= 1:
                out.append(('lone ' + '+'.join(names), scenario(LONE, names), ('bounded', 3, 1500)))
        for names in (('api', 'cli', 'loss'), ('api', 'cli', 'ocli'), ('api', 'loss', 'oapi'), ('cli', 'loss', 'ocli'),
                      ('api', 'cli', 'oapi'), ('api', 'api', 'cli')):
            out.append(('full ' + '+'.join(names), scenario(FULL, names), ('bounded', 2, 1500)))
    # disconnect(sid, ignore_queue=True) - a documented argument, what PubSubManager uses for a disconnect that
    # arrives over the queue: every entry above that has an `api` cause, again with that variant of the call
    out += queue_variants(out)
    return out


def _explore_one(task):
    """Worker (own process): every run of one scenario, as (kind, schedule, switches, result-lite)."""
    name, sc, how, seed, mode, cap = task
    from vt import common
    rng = common.Rng(seed).sub('C20/%s/%s' % (mode, name))
    runner = S.run_threads if mode == 'threads' else S.run_async
    out = []

    def add(r, kind):
        out.append({'kind': kind, 'schedule': list(r.schedule), 'trace': r.trace, 'final': r.final,
                    'alldone': r.alldone, 'error': r.error, 'sw': switches_in_flight(r)})
    if how == 'all':
        for r in S.explore(runner, sc, limit=cap):
            add(r, 'exhaustive')
    else:
        _, k, walks = how
        for r in S.explore(runner, sc, limit=cap, max_preempt=k):
            add(r, 'preemptions<=%d' % k)
        for _ in range(walks):
            add(S.random_walk(runner, sc, rng), 'random walk')
    for _ in range(4):
        add(S.random_walk(runner, sc, rng, noop_rate=0.25), 'walk with no-ops')
    if mode != 'threads':
        S.close_loop()
    return out


class Lite:
    def __init__(self, d):
        self.__dict__.update(d)


def collect(chk, mode, gran, the_plan, witnesses):
    """Run the plan on the real server; returns (defs, case terms, meta)."""
    import multiprocessing
    from vt import common
    defs = Defs()
    cases, meta = [], []
    n_err = [0]

    def add(name, sc, rec, expect=None):
        r = Lite(rec)
        cases.append(case_term(gran, defs.name(sc), r))
        meta.append({'mode': mode, 'scenario': name, 'sc': sc, 'schedule': r.schedule, 'kind': r.kind,
                     'order': len(defs.names),
                     'error': r.error, 'expect': expect, 'trace': r.trace, 'final': r.final})
        sample = None
        if r.sw and len(chk.samples) < 6 and r.kind == 'exhaustive' and len(meta) % 97 == 0:
            sample = {'mode': mode, 'scenario': name, 'schedule': r.schedule,
                      'trace': [[' '.join(map(str, l)) for l in st] for st in r.trace][:16]}
        chk.count(1, (mode, name, tuple(r.schedule)) if r.sw else None, sample)
        chk.dist('%s %s' % (mode, r.kind))
        chk.dist('%s steps taken while another cause is in flight: %s' % (mode, r.sw if r.sw < 4 else '4+'))
        if r.error:
            n_err[0] += 1
            if n_err[0] <= 3:
                chk.broken_obligation('driver error on %s %r %s: %s' % (mode, name, r.schedule, r.error))

    runner = S.run_threads if mode == 'threads' else S.run_async
    for name, sc, sched, expect in witnesses:
        r = runner(sc, sched)
        add('witness ' + name, sc, {'kind': 'witness', 'schedule': list(r.schedule), 'trace': r.trace,
                                    'final': r.final, 'alldone': r.alldone, 'error': r.error,
                                    'sw': switches_in_flight(r)}, expect)
    if mode != 'threads':
        S.close_loop()
    # the cap only matters on a tree whose behaviour has left the model (e.g. an extra suspension point)
    cap = 200000 if chk.thorough else 6000
    tasks = [(name, sc, how, chk.rng.seed_value, mode, cap) for name, sc, how in the_plan]
    ctx = multiprocessing.get_context('fork')
    with ctx.Pool(min(common.NCPU, max(1, len(tasks)))) as pool:
        results = pool.map(_explore_one, tasks, chunksize=1)
    for (name, sc, how), recs in zip(the_plan, results):
        for rec in recs:
            add(name, sc, rec)
    if n_err[0]:
        chk.broken_obligation('%d runs ended in a driver error' % n_err[0])
    return defs, cases, meta


def judge(chk, tag, defs, cases, meta, corr_sig):
    """Evaluate the cases inside Coq and report."""
    codes, errors = coqio.eval_cases(tag, IMPORTS, defs.text(), 'ccase', cases, 'c20_eval', shard=700)
    chk.traces_validated += len(cases)
    for e in errors:
        chk.broken_obligation('case evaluation failed: ' + e)

    replayed = {}
    for idx, m in enumerate(meta):
        if m['kind'] == 'witness':
            code = codes.get(idx, 0)
            replayed[m['scenario']] = {'agrees_with_model': not (code & 1),
                                       'violates_on_real_server': bool(code & 2),
                                       'bits': code, 'expected_bits': m['expect']}
    if replayed:
        chk.extra.setdefault('witness_replay', {}).update(replayed)

    n_disagree = sum(1 for c in codes.values() if c & 1)
    if n_disagree:
        chk.broken_obligation('correspondence: model and implementation disagree on %d of %d runs' % (
            n_disagree, len(cases)))
    best, count = {}, {}
    shown = 0
    for idx, code in sorted(codes.items()):
        m = meta[idx]
        if code & 1 and shown < 4:
            shown += 1
            chk.broken_obligation('correspondence: model and %s server disagree on scenario %r schedule %s' % (
                m['mode'], m['scenario'], m['schedule']))
        if code & 2:
            sig = signature(code, m['mode'])
            count[sig] = count.get(sig, 0) + 1
            cur = best.get(sig)
            if cur is None or _size(m) < _size(meta[cur[0]]):
                best[sig] = (idx, code)
    if n_disagree and not any(c & 2 for c in codes.values()):
        # searched harder (everything above) and found no input on which the property fails
        idx = min(i for i, c in codes.items() if c & 1)
        m = meta[idx]
        chk.violation(corr_sig, 'model coq/Conc/ServerConc.v and the real %s server disagree' % m['mode'],
                      _replay_of(m, cases[idx]), no_input=True)
    for sig, (idx, code) in sorted(best.items()):
        m = meta[idx]
        chk.violation(sig, '%s (minimal schedule found: %s, causes %s, schedule %s; %d violating runs of this class)' % (
            what_of(code), m['mode'], m['sc']['causes'], m['schedule'], count[sig]), _replay_of(m, cases[idx]))
    chk.extra.setdefault('violating_runs_by_signature', {}).update(count)
    return codes


def _size(m):
    return (len(m['sc']['causes']), len(m['sc']['setup']), len(m['schedule']), m['order'], m['schedule'])


def _replay_of(m, case):
    return {'mode': m['mode'], 'scenario': m['scenario'], 'sc': m['sc'], 'schedule': m['schedule']}


TRUSTED = [
    'Coq 8.16.1 kernel + vm_compute (case evaluation, refutation witnesses)',
    'hand model coq/Conc/ServerConc.v over coq/Manager/Manager.v (transcribed from server.py / async_server.py / '
    'base_manager.py); its fidelity is what the correspondence checks run by run',
    'harness/drivers/sched_srv.py: baton scheduler / gate trampoline; real socketio.Server / AsyncServer over real '
    'engineio Socket / AsyncSocket objects built by hand (no HTTP); engineio generate_id replaced by a counter',
    'choice of atomic steps: one per call of manager.get_namespaces / sid_from_eio_sid / is_connected / pre_disconnect / '
    'disconnect, eio.send, the disconnect handler, `eio_sid in environ`, acquiring server._disconnect_lock (replaced by '
    'drivers.sched_srv.ILock: mutual exclusion is enforced by the scheduler; a blocking acquire of a held lock is not '
    'enabled, a non-blocking / timed one stays enabled and answers False) (threads: each such call is atomic, i.e. the '
    'scheduler does not pre-empt INSIDE is_connected or basic_disconnect; finer pre-emption can only add behaviours)',
    'engine.io reports the loss of one transport once; it contains exceptions of the message / disconnect handlers '
    '(they are observed where they leave python-socketio)']


def run(chk):
    chk.rule = ('scheduled runs of the real threaded Server with 2 (thorough: 2 and 3) concurrent terminating causes; '
                'a case is non-trivial when at least one step of a cause is taken while another cause is in flight; '
                'distinct by (scenario, schedule)')
    chk.trusted_base = list(TRUSTED)
    chk.assumptions = [
        'only terminating causes run concurrently (no CONNECT, enter_room or emit in the window); the initial state is '
        'well-formed and quiescent (no disconnect in progress)',
        'disconnect handlers do not call back into the server API; a scripted handler may raise',
        'thread pre-emption inside one manager call is not explored (see trusted base)']
    chk.prove(targets=['Check/C20Check.v'])
    gran, seen = thread_gran()
    chk.extra['variant'] = {'disconnect() takes _disconnect_lock': seen[0],
                            '_handle_disconnect() takes _disconnect_lock': seen[1], 'model granularity': gran}
    # the refutation witnesses are schedules of the code without the lock
    defs, cases, meta = collect(chk, 'threads', gran, plan(chk.thorough),
                                WITNESSES if gran == 'GThread' else LOCKED_WITNESSES)
    judge(chk, 'c20', defs, cases, meta, 'c20-correspondence')


def replay(chk, data):
    rp = data['replay']
    if 'schedule' not in rp:
        print('nothing to replay: %s' % rp)
        return 1
    return replay_run(rp, 'c20_replay')


def replay_run(rp, tag):
    mode = rp['mode']
    runner = S.run_threads if mode == 'threads' else S.run_async
    sc = rp['sc']
    r = runner(sc, rp['schedule'])
    if mode != 'threads':
        S.close_loop()
    print('mode=%s causes=%s raising=%s' % (mode, sc['causes'], sc['raising']))
    print('  initial: %s' % r.initial)
    for ch, labels in zip(r.schedule, r.trace):
        print('  task %d: %s' % (ch, labels))
    print('  final: %s alldone=%s error=%s' % (r.final, r.alldone, r.error))
    defs = Defs()
    r.kind = 'replay'
    case = case_term(thread_gran()[0] if mode == 'threads' else 'GAsync', defs.name(sc), r)
    rc, out = coqio.eval_print(tag, IMPORTS, defs.text(), ['c20_eval %s' % case, 'c20_explain %s' % case])
    print(out)
    first = out.split('\n')[0] if out else ''
    try:
        code = int(first.split('=')[1].split(':')[0].strip().rstrip('%nat'))
    except (IndexError, ValueError):
        code = -1
    if code > 0 and code & 2:
        print('signature: %s - %s' % (signature(code, mode), what_of(code)))
    if code > 0 and code & 1:
        print('model and implementation disagree on this schedule')
    return 0 if code == 0 else 1
