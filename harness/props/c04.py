"""C04 - server connection lifecycle (sequential histories; asyncio interleavings: see c04 conc part)."""
from gen import server_hist
from props import srvprop


def nontrivial(cfg, ops, results):
    refusals = 0
    for o, (effs, _) in zip(ops, results):
        for e in effs:
            if e[0] == 'Out' and isinstance(e[2], str) and e[2][:1] == '4':
                refusals += 1
    ends = sum(1 for o in ops if o[0] in ('close', 'disconnect') or (o[0] == 'msg' and isinstance(o[2], str) and o[2][:1] == '1'))
    return refusals >= 1 or ends >= 2


def run(chk):
    k = server_hist.Knobs(n_ops=30, refuse=0.35, actions=0.0, catchall=0.25, class_ns=0.4)
    k.w.update({'connect': 9, 'client_disconnect': 4, 'close': 2.5, 'disconnect': 4, 'event': 1, 'emit': 1.5, 'emit_cb': 0.2,
                'enter': 1, 'leave': 0.3, 'close_room': 0.2, 'rooms': 0.5, 'session': 0.2, 'junk': 0.3, 'binary': 0.2, 'ack': 0.2})
    chk.assumptions = ['connect handlers that raise something other than ConnectionRefusedError, and handlers whose '
                       'signature cannot take the auth payload, are outside the domain',
                       'freshness of session ids is relative to the uniqueness of the id generator (replaced by a counter)']
    srvprop.run(chk, 'c04', k, 130, 1500,
                'histories over CONNECT(ns, auth) / DISCONNECT(ns) / transport loss / server.disconnect for 1-5 transports and '
                '4 namespaces (one never served), connect handlers that accept, return False or raise ConnectionRefusedError '
                'with 0,1,2,3 arguments, always_connect on/off, namespaces default / list / "*", function handlers and '
                'class-based namespaces; non-trivial = at least one refusal or two terminating causes; distinct by effect signature',
                nontrivial)
    # asyncio server: every interleaving of 2-3 concurrent terminating causes (package C20/C04Async)
    if not chk.broken:
        from props import c04async
        c04async.run_async_part(chk)


def replay(chk, data):
    rp = data.get('replay') if isinstance(data, dict) else None
    if isinstance(rp, dict) and 'schedule' in rp and 'mode' in rp:     # a scheduled run of the asyncio part
        from props import c04async
        return c04async.replay(chk, data)
    return srvprop.replay(chk, data, 'c04')
