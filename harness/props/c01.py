"""C01 - packet codec round trip and wire conformance.
Tie: hand model Codec/Packet.v + Codec/SpecCodec.v, correspondence on generated packets
and on a malformed frame stream; the Coq-checked boolean checker evaluates the property
on what the implementation produced."""
import json as stdjson

from vt import coqio
from vt.coqio import pv, cstr, copt, cZ, clist, cres, exn_name
from gen import values


IMPORTS = 'From VT Require Import Codec.Packet Codec.SpecCodec Check.C01Check.'


class RecJson:
    """engineio.json with a recording loads(): the oracle table of the model."""

    def __init__(self):
        from engineio import json as ejson
        self._j = ejson
        self.table = []

    def dumps(self, *a, **k):
        return self._j.dumps(*a, **k)

    def loads(self, s, *a, **k):
        try:
            r = self._j.loads(s, *a, **k)
        except BaseException as e:
            self.table.append((s, False, exn_name(e)))
            raise
        self.table.append((s, True, r))
        return r


def table_term(tbl):
    items = []
    for s, ok, r in tbl:
        try:
            items.append('(%s, %s)' % (cstr(s), cres(ok, pv(r) if ok else r)))
        except TypeError:
            items.append('(%s, (Err OtherError))' % cstr(s))
    return clist(items)


def packet_class(rec):
    from socketio import packet
    return type('P', (packet.Packet,), {'json': rec})


def obs_encode(P, t, data, ns, pid, binary):
    try:
        p = P(t, data=data, namespace=ns, id=pid, binary=binary)
        enc = p.encode()
        # encode() is a function of the packet's fields (the model's encode is pure): a packet object encoded
        # again - re-sent, forwarded, emitted to several recipients - must produce the same frames; what is
        # judged is the LAST of three encodings of the same object
        for _ in range(2):
            again = p.encode()
            if again != enc:
                enc = again
                break
    except BaseException as e:
        return None, '(Err %s)' % exn_name(e)
    if isinstance(enc, list):
        return enc, '(Ok (%s, Some %s))' % (cstr(enc[0]), clist([cstr(b) for b in enc[1:]]))
    return enc, '(Ok (%s, None))' % cstr(enc)


def obs_decode(P, payload, atts):
    """decode + feed attachments; observation = fields, declared count, completion flags."""
    try:
        p = P(encoded_packet=payload)
        flags = []
        for a in atts:
            flags.append(p.add_attachment(a))
        term = '(Ok (%s, %d%%N, %s))' % (
            coqio.cpacket(p.packet_type, p.namespace, p.id, p.data), p.attachment_count,
            clist([coqio.cbool(b) for b in flags]))
        return p, term
    except TypeError as e:
        if 'cannot print' in str(e):
            raise
        return None, '(Err %s)' % exn_name(e)
    except BaseException as e:
        return None, '(Err %s)' % exn_name(e)


def spec_encode_py(t, data, ns, pid):
    """Independent transcription of the v5 grammar (used to produce frames for
    the decoder under test); returns [text] + attachments."""
    atts = []

    def walk(v):
        if isinstance(v, (bytes, bytearray)):
            atts.append(bytes(v))
            return {'_placeholder': True, 'num': len(atts) - 1}
        if isinstance(v, list):
            return [walk(x) for x in v]
        if isinstance(v, dict):
            return {k: walk(x) for k, x in v.items()}
        return v
    d = walk(data)
    if atts and t in (2, 3):
        t += 3
    s = str(t)
    if t in (5, 6):
        s += '%d-' % len(atts)
    if ns not in (None, '/'):
        s += ns + ','
    if pid is not None:
        s += str(pid)
    if d is not None:
        s += stdjson.dumps(d, separators=(',', ':'))
    return [s] + atts


def gen_packet(rng):
    t = rng.choice([0, 1, 2, 2, 2, 3, 3, 4, 2, 3])
    ns = rng.choice([None, None, '/', '/a', '/chat-1', '/x?y=1', '/1-2', '/12-', '/é\U0001f600',
                     '/a/b', '/' + values.gen_text(rng, 6).replace(',', '')])
    pid = rng.choice([None, None, 0, 1, 5, 12, 10 ** 99, rng.randrange(10 ** 6), 10 ** 100 - 1,
                      rng.randrange(10 ** 40)])
    depth = rng.choice([1, 2, 2, 3, 4])
    if t == 2:
        data = [rng.choice(['ev', 'my-event', '1-2', 'msg', values.gen_text(rng, 5)])] + \
            [values.gen_json(rng, depth, bytes_ok=True) for _ in range(rng.randrange(0, 4))]
    elif t == 3:
        data = [values.gen_json(rng, depth, bytes_ok=True) for _ in range(rng.randrange(0, 4))]
    elif t == 0:
        data = rng.choice([None, {}, {'sid': 'abc'}, values.gen_dict(rng, depth, bytes_ok=False)])
    elif t == 4:
        data = rng.choice([None, 'Unable to connect', {'message': 'no', 'data': [1, 2]},
                           values.gen_text(rng, 8), values.gen_dict(rng, depth, False), True, [1, 'a']])
        pid = rng.choice([None, pid])
    else:
        data = None
    return t, data, ns, pid


def mutate(rng, frame):
    """Grammar-aware mutations of a valid text frame."""
    s = frame
    k = rng.randrange(12)
    pos = rng.randrange(len(s) + 1)
    pool = ['-', ',', '/', '?', '0', '9', '1234567890', '٣', '²', '"', '[', ']', '{', '}',
            '5', '6', ' ', '\U0001d7d8', '12345678901', '1' * 101, '1' * 100, 'true', 'null']
    if k == 0 and s:
        return s[:pos] + s[pos + 1:]
    if k == 1:
        return s[:pos] + rng.choice(pool) + s[pos:]
    if k == 2:
        return s[:pos]
    if k == 3:
        return s[:1] + rng.choice(pool) + s[1:]
    if k == 4:
        return rng.choice(pool) + s
    if k == 5 and len(s) > 1:
        return s[0] + rng.choice(['1-', '0-', '2-', '99999999999-', '1234567890-', '١-', '²-', '-', '1-/x,']) + s[1:]
    if k == 6:
        return s[:pos] + s[pos:] + s[pos:]
    if k == 7:
        return rng.choice('0123456789') + s[1:]
    if k == 8:
        return s[0] + '/ns' + rng.choice([',', '', '?q=1,', '?', ',,']) + s[1:]
    if k == 9:
        return s[0] + str(rng.choice([0, 7, 10 ** 99, 10 ** 100, 10 ** 101])) + s[1:]
    if k == 10:
        return s[:pos] + rng.choice(['[' * 30, '{"_placeholder":true,"num":%s}' % rng.choice(
            ['0', '-1', '5', '"0"', 'true', '1.5', 'null']), '{"_placeholder":1}', '{"num":0}']) + s[pos:]
    return ''.join(rng.choice(pool + list(s)) for _ in range(rng.randrange(1, 12)))


def run(chk):
    rng = chk.rng
    n_pkts = 6000 if chk.thorough else 900
    n_mut = 6000 if chk.thorough else 900
    chk.rule = ('packets from a typed generator (7 types, namespace pool incl. query strings / digits / '
                'dashes / non-BMP, ids up to 10^100-1, JSON trees depth<=4 with bytes leaves); a case is '
                'non-trivial when it has a non-default namespace, an id or an attachment, or (malformed '
                'stream) when the mutation changes the decode result; distinct by (kind, type, header '
                'shape, payload skeleton / result class)')
    chk.trusted_base = [
        'Coq 8.16.1 kernel + vm_compute (case evaluation)',
        'hand model Codec/Packet.v, Codec/Json.v (printer), Base/Unicode.v regenerated from unicodedata',
        'json.loads is an oracle: per-case table recorded from the real engineio.json.loads',
        'harness/props/c01.py generators and the Python->Gallina value printer (vt/coqio.py)',
        'independent Python transcription of the v5 grammar (spec_encode_py) used to feed the decoder']
    chk.assumptions = ['C01_roundtrip/C01_interop carry the hypothesis that json.loads inverts the concrete '
                       'printer on JSON-able values (library behaviour; sampled by the correspondence)',
                       'top-level numeric payloads are outside the domain (wire-format limitation, C01_number_payload_refuted)']
    chk.prove(targets=['Check/C01JsonCheck.v'])

    cases, meta = [], []
    json_pairs = []
    for i in range(n_pkts):
        t, data, ns, pid = gen_packet(rng)
        rec = RecJson()
        P = packet_class(rec)
        binary = rng.choice([None, None, None, None, True, False])
        enc, enc_term = obs_encode(P, t, data, ns, pid, binary)
        skel = values.skeleton(data)
        key = ('enc', t, ns is not None and ns != '/', pid is not None, skel)
        nontriv = (ns not in (None, '/')) or pid is not None or isinstance(enc, list)
        cases.append('(Enc %s %s %s %s %s %s)' % (cZ(t), pv(data), copt(ns, cstr), copt(pid, cZ),
                                                  copt(binary, coqio.cbool), enc_term))
        meta.append(('enc', (t, data, ns, pid, binary)))
        chk.count(1, key if nontriv else None,
                  {'kind': 'enc', 'type': t, 'ns': ns, 'id': pid, 'data': repr(data)[:120], 'frames': repr(enc)[:160]})
        chk.dist('enc type %d' % t)
        if enc is None:
            chk.dist('enc raises')
            continue
        # round trip of the implementation's own frames through the implementation's decoder
        frames = enc if isinstance(enc, list) else [enc]
        rec2 = RecJson()
        P2 = packet_class(rec2)
        _, dec_term = obs_decode(P2, frames[0], frames[1:])
        json_pairs.extend((t_, r_) for t_, ok_, r_ in rec2.table if ok_)
        cases.append('(RT %s %s %s %s %s %s %s %s %s)' % (
            cZ(t), pv(data), copt(ns, cstr), copt(pid, cZ), copt(binary, coqio.cbool),
            pv(frames[0]), clist([pv(a) for a in frames[1:]]), table_term(rec2.table), dec_term))
        meta.append(('rt', (t, data, ns, pid, binary)))
        chk.count(1, ('rt',) + key[1:] if nontriv else None)
        # frames of the independent spec-derived encoder through the decoder under test
        if binary is None and i % 2 == 0:
            sframes = spec_encode_py(t, data, ns, pid)
            rec3 = RecJson()
            _, dec3 = obs_decode(packet_class(rec3), sframes[0], sframes[1:])
            cases.append('(RT %s %s %s %s None %s %s %s %s)' % (
                cZ(t), pv(data), copt(ns, cstr), copt(pid, cZ), pv(sframes[0]), clist([pv(a) for a in sframes[1:]]), table_term(rec3.table), dec3))
            meta.append(('rt-spec', (t, data, ns, pid)))
            chk.count(1, ('rtspec',) + key[1:] if nontriv else None)
    # malformed stream
    base_frames = []
    for _ in range(200):
        t, data, ns, pid = gen_packet(rng)
        try:
            f = spec_encode_py(t, data, ns, pid)
            base_frames.append(f)
        except Exception:
            pass
    raw_values = [True, False, None, 1.0, 2.0, 0.0, 1.5, [1], [], {}, {'a': 1}, '', b'', b'2["a"]', b'x',
                  [0], 'x', ' 2', '+2', '٢["e"]', '²', 7]
    for i in range(n_mut):
        if i % 10 == 9:
            payload = rng.choice(raw_values)
            atts = []
        else:
            f = rng.choice(base_frames)
            payload = mutate(rng, f[0]) if rng.random() < 0.85 else f[0]
            atts = list(f[1:])
            r = rng.random()
            if r < 0.15 and atts:
                atts = atts[:-1]
            elif r < 0.3:
                atts = atts + [rng.choice([b'extra', 'text', True])]
        rec = RecJson()
        p, dec_term = obs_decode(packet_class(rec), payload, atts)
        cases.append('(Dec %s %s %s %s)' % (pv(payload), table_term(rec.table), clist([pv(a) for a in atts]), dec_term))
        meta.append(('dec', (payload, atts)))
        cls = 'ok' if p is not None else dec_term
        key = ('dec', cls, None if p is None else (repr(p.packet_type), p.namespace is not None, p.id is not None,
                                                    p.attachment_count, values.skeleton(p.data)))
        chk.count(1, key, {'kind': 'dec', 'payload': repr(payload)[:100], 'obs': dec_term[:160]} if i < 3 else None)
        chk.dist('dec ' + (cls if p is None else 'ok'))

    # the concrete JSON parser of the unconditional round-trip theorem against the real json.loads,
    # on the JSON texts produced by the implementation's own encoder
    seen, jl = set(), []
    for text, val in json_pairs:
        if text in seen:
            continue
        seen.add(text)
        try:
            jl.append('(%s, (Ok %s))' % (cstr(text), pv(val)))
        except TypeError:
            pass
    jcodes, jerrors = coqio.eval_cases('c01_json', 'From VT Require Import Check.C01JsonCheck.', '',
                                       'str * Res pv', jl, 'jl_eval', shard=500)
    chk.extra['json_parser_texts_compared'] = len(jl)
    for e in jerrors:
        chk.broken_obligation('case evaluation failed: ' + e)
    if jcodes:
        idx = sorted(jcodes)[0]
        chk.broken_obligation('Codec/JsonParse.v json_loads disagrees with engineio.json.loads on %s' % jl[idx][:200])
        chk.violation('c01-json-parser-correspondence', 'the concrete JSON parser and json.loads disagree on printer output',
                      {'case': jl[idx]}, no_input=True)
    codes, errors = coqio.eval_cases('c01', IMPORTS, '', 'c01case', cases, 'c01_eval')
    chk.traces_validated = len(cases)
    for e in errors:
        chk.broken_obligation('case evaluation failed: ' + e)
    for idx, code in sorted(codes.items()):
        kind, inp = meta[idx]
        if code & 2:
            chk.violation('c01-%s-property' % kind,
                          'implementation output violates the Coq-checked C01 checker (%s case)' % kind,
                          {'case': cases[idx], 'input': repr(inp)})
        elif code & 1:
            chk.broken_obligation('correspondence: model and implementation disagree on %s case %r' % (kind, inp))
            chk.violation('c01-%s-correspondence' % kind,
                          'model Codec/Packet.v and src/socketio/packet.py disagree',
                          {'case': cases[idx], 'input': repr(inp)}, no_input=True)


def replay(chk, data):
    case = data['replay'].get('case')
    rc, out = coqio.eval_print('c01_replay', IMPORTS, '', ['c01_eval %s' % case, 'c01_explain %s' % case])
    print(out)
    return 1 if '= 0' not in out.split('\n')[0] else 0
