"""C12 - hostile input from one client cannot touch other clients or stop the server."""
from gen import server_hist
from props import srvprop, c01


INSERTED = {}      # id(history ops) -> (offender transport, indices of the injected messages)


def hostile(rng, cfg, ops):
    """Interleave a malformed stream from one offender with the bystanders' traffic."""
    eios = [o[1] for o in ops if o[0] == 'eio_connect']
    if not eios:
        return cfg, ops
    off = eios[0]
    out = []
    marks = set()
    INSERTED[id(out)] = (off, marks)
    for o in ops:
        out.append(o)
        if rng.random() < 0.45:
            base = rng.choice(['2["ev",1]', '2/chat,7["ev",{"a":1}]', '0/chat,{"t":1}', '3/chat,1["x"]', '1/a,',
                               '51-["ev",{"_placeholder":true,"num":0}]', '61-/chat,2[{"_placeholder":true,"num":0}]',
                               '2/a,["msg","x"]', '0'])
            wire = c01.mutate(rng, base) if rng.random() < 0.8 else base
            if rng.random() < 0.12:
                wire = rng.choice([b'\x00\x01', b'2["ev"]', '', 'true', '1.0', '[2]', '{"x":1}', '"0"', 'null'])
            marks.add(len(out))
            out.append(('msg', off, server_hist.eio_decode(wire)))
    return cfg, out


def hostile_msgpack(rng, cfg, ops):
    """The msgpack counterpart: blobs that are not exactly one well-formed packet."""
    import msgpack
    eios = [o[1] for o in ops if o[0] == 'eio_connect']
    if not eios:
        return cfg, ops
    off = eios[0]
    out = []
    marks = set()
    INSERTED[id(out)] = (off, marks)
    good = [msgpack.dumps({'type': 2, 'nsp': '/', 'data': ['ev', 1], 'id': 4}),
            msgpack.dumps({'type': 2, 'nsp': '/chat', 'data': ['msg', {'to': 'x', 'amount': 1000}]}),
            msgpack.dumps({'type': 3, 'nsp': '/', 'data': ['x'], 'id': 1}),
            msgpack.dumps({'type': 1, 'nsp': '/a'}), msgpack.dumps({'type': 0, 'nsp': '/chat', 'data': {}})]
    for o in ops:
        out.append(o)
        if rng.random() < 0.4:
            g = rng.choice(good)
            blob = rng.choice([g[:-2], g + b'\x01', g + rng.choice(good), g + g, b'\xc1', bytes([rng.randrange(256) for _ in range(5)]),
                               msgpack.dumps([1, 2]), msgpack.dumps(7), msgpack.dumps({'nsp': '/'}), msgpack.dumps({'type': 2}),
                               msgpack.dumps({'type': 9, 'nsp': '/', 'data': None}), msgpack.dumps({'type': 5, 'nsp': '/', 'data': ['ev']}),
                               g])
            marks.add(len(out))
            out.append(('msg', off, blob))
    return cfg, out


def bystander_trace(cfg, ops, off, marks, mode, without):
    """What the clients other than the offender observe: effects of every operation that does not
    originate from the offender, restricted to the other transports / sessions, with session ids
    renamed by first appearance (the offender's CONNECT attempts consume ids)."""
    import re
    from drivers import srv
    keep = [i for i in range(len(ops)) if not (without and i in marks)]
    results, _ = srv.run_history(cfg, [ops[i] for i in keep], mode)
    # session ids living on the offender's transport
    mine = set()
    for effs, _t in results:
        for e in effs:
            if e[0] == 'Out' and e[1] == off and isinstance(e[2], str) and e[2][:1] == '0':
                m = re.search(r'"sid":"(S\d+)"', e[2])
                if m:
                    mine.add(m.group(1))
            if e[0] == 'Out' and e[1] == off and isinstance(e[2], dict) and e[2].get('type') == 0 and \
                    isinstance(e[2].get('data'), dict) and 'sid' in e[2]['data']:
                mine.add(e[2]['data']['sid'])
    names = {}

    def ren(v):
        if isinstance(v, str):
            def sub(m):
                return names.setdefault(m.group(0), 'B%d' % len(names))
            return re.sub(r'S\d+', sub, v) if re.search(r'S\d+', v) else v
        if isinstance(v, (list, tuple)):
            return [ren(x) for x in v]
        if isinstance(v, dict):
            return {ren(a): ren(b) for a, b in v.items()}
        return v

    def mentions_mine(v):
        txt = repr(v)
        return any(re.search(r'\b%s\b' % sid, txt) for sid in mine)
    issued = sorted(set(re.findall(r'sid.{1,5}?(S\d+)', repr([e for effs, _t in results for e in effs if e[0] == 'Out']))))
    trace = [['issued', issued]]
    from props import srvcommon
    expanded = [(i, x) for i in keep for x in srvcommon.expand([ops[i]])]      # one result per MODEL operation
    for (i, o), (effs, _t) in zip(expanded, results):
        if o[0] in ('msg', 'msg_nested', 'msg_sd', 'eio_connect', 'close') and o[1] == off:
            continue
        if mentions_mine(o):
            continue        # an API call addressed to the offender's own session
        view = []
        for e in effs:
            if e[0] == 'Out' and e[1] == off:
                continue
            if mentions_mine(e):
                continue
            if o[0] == 'enter' and e[0] == 'Raised' and e[1] in ('KeyError', 'ValueError'):
                # enter_room for a session that is gone fails either way; WHICH error the application sees depends
                # on whether anybody (the offender included) is still connected to that namespace, and the
                # offender's own connection state is outside the claim
                e = ('Raised', 'NotConnected')
            view.append(ren([e[0]] + [x for x in e[1:]]))
        trace.append(ren([i if not without else i, view])[1])
    return trace


def bystander_check(chk, hs, sample):
    """The bystanders' view with and without the offender's injected messages must be the same
    (a property of the implementation alone; compared inside Coq)."""
    from vt import coqio
    from vt.coqio import pv, clist
    cases, meta = [], []
    for i in sample:
        cfg, ops = hs[i]
        if id(ops) not in INSERTED:
            continue
        off, marks = INSERTED[id(ops)]
        for mode in ('sync', 'async'):
            try:
                a = bystander_trace(cfg, ops, off, marks, mode, False)
                b = bystander_trace(cfg, ops, off, marks, mode, True)
                if a[0] != b[0]:
                    # an injected message was itself an accepted CONNECT: it consumed a session id, so the
                    # positional ids used by the scripted API calls address different clients; not comparable
                    chk.dist('bystander comparison skipped (injected CONNECT accepted)')
                    continue
                a, b = a[1:], b[1:]
                cases.append('(PGen 12%%N %s %s)' % (clist([pv(x) for x in a]), clist([pv(x) for x in b])))
                meta.append((i, mode))
            except Exception as e:
                chk.broken_obligation('bystander comparison failed on history %d: %r' % (i, e))
    if not cases:
        return
    codes, errors = coqio.eval_cases('c12_byst', 'From VT Require Import Check.C14Check.', '', 'c14case', cases, 'c14_eval', shard=40)
    for e in errors:
        chk.broken_obligation('case evaluation failed: ' + e)
    chk.extra['bystander_comparisons'] = len(cases)
    for idx, code in sorted(codes.items()):
        i, mode = meta[idx]
        cfg, ops = hs[i]
        chk.violation('bystander-trace-depends-on-offender',
                      'what the other clients observe changes when the offender\'s malformed messages are removed (%s server)' % mode,
                      {'py': repr((cfg, ops, mode)), 'offender': INSERTED[id(ops)][0], 'injected': sorted(INSERTED[id(ops)][1])})
        break


def nontrivial(cfg, ops, results):
    rejected = 0
    for o, (effs, _) in zip(ops, results):
        if o[0] == 'msg' and not effs:
            rejected += 1
    return rejected >= 2 and sum(1 for o in ops if o[0] == 'eio_connect') >= 2


def run(chk):
    k = server_hist.Knobs(n_ops=22, refuse=0.1, actions=0.0)
    k.w.update({'junk': 3, 'binary': 1.5, 'event': 4, 'ack': 1.5, 'emit_cb': 1.5, 'session': 1})
    chk.assumptions = ["the offender's own connection may be left unusable (outside the claim)",
                       'msgpack serializer: see MsgPack notes in DESIGN.md (decode is the library oracle)']
    from props import srvcommon, c03
    # a server that reserves memory in proportion to a declared number must fail here with MemoryError
    # (contained by engine.io) instead of taking the whole sandbox down
    import resource
    try:
        resource.setrlimit(resource.RLIMIT_AS, (6 << 30, 6 << 30))
    except (ValueError, OSError):
        pass
    chk.rule = ('histories of well-formed traffic of 2-5 clients with a malformed stream (grammar mutations of valid frames, '
                'engine.io-level JSON payloads, stray binary; msgpack: truncated / concatenated / trailing-byte / mistyped blobs) '
                'injected from one offender after ~45% of the operations; the Coq checker judges every offender message: no packet '
                'to another transport, no handler call on behalf of another sid, no foreign callback, other clients\' state '
                'projection unchanged, undecodable input reaches no handler; additionally the bystanders\' view of the run is '
                'compared with the run without the injected messages; non-trivial = >= 2 rejected messages and >= 2 transports; '
                'distinct by effect signature')
    chk.trusted_base = list(srvprop.TRUSTED) + ['msgpack.loads / dumps as oracles (frames compared as the packed dict)']
    chk.prove()
    rng = chk.rng
    hs = srvcommon.load_corpus('c12')
    for _ in range(1500 if chk.thorough else 110):
        cfg, ops = server_hist.gen_history(rng, k)
        hs.append(hostile(rng, cfg, ops))
    bad = srvcommon.run_histories(chk, 'c12', hs, nontrivial=nontrivial)
    c03.report(chk, 'c12', hs, bad)
    # the same with the msgpack serializer (frames are msgpack blobs; the msgpack library is an oracle)
    k2 = server_hist.Knobs(n_ops=22, refuse=0.1, actions=0.0, serializer='msgpack')
    k2.w.update({'junk': 1, 'binary': 1.5, 'event': 4, 'ack': 1.5, 'emit_cb': 1.5, 'session': 1})
    hs2 = []
    for _ in range(500 if chk.thorough else 45):
        cfg, ops = server_hist.gen_history(rng, k2)
        hs2.append(hostile_msgpack(rng, cfg, ops))
    bad2 = srvcommon.run_histories(chk, 'c12', hs2, nontrivial=nontrivial)
    c03.report(chk, 'c12', hs2, bad2, lambda cfg, ops, mode: 'c12-msgpack-%s-property' % mode)
    # directed search / sample: bystander view with and without the offender
    allh = hs + hs2
    suspects = [i for i, _m, _c, _t in bad] + [len(hs) + i for i, _m, _c, _t in bad2]
    sample = sorted(set(suspects[:10] + list(range(0, len(hs), max(1, len(hs) // 12))) +
                        list(range(len(hs), len(allh), max(1, len(hs2) // 12)))))
    bystander_check(chk, allh, sample)
    if not chk.violations:
        resource_guard(chk)


def resource_guard(chk):
    """Supporting measurement for the last clause of C12 (the theorems C12_guard_* / C12_bounded_state
    are about the model): memory reserved while a frame is handled must not grow with a number
    DECLARED inside the frame (attachment count, id), only with the bytes received."""
    import asyncio
    import tracemalloc
    from drivers import srv
    cfg = {'handlers': {'/': {'connect': 1, 'ev': 2}}, 'ns_handlers': {},
           'behav': {1: {'arity': 2, 'actions': [], 'outcome': ('ret', None)},
                     2: {'arity': None, 'actions': [], 'outcome': ('ret', None)}},
           'namespaces': ['/'], 'always_connect': False, 'serializer': 'default'}
    frames = ['5%d-["ev",{"_placeholder":true,"num":0}]' % n for n in (3, 3000, 300000, 3000000)] + \
             ['6%d-1[{"_placeholder":true,"num":0}]' % n for n in (3, 3000000)] + \
             ['2%d["ev"]' % (10 ** k) for k in (3, 30, 99)]

    async def measure():
        peaks = []
        for f in frames:
            d = srv.ServerDriver(cfg, 'sync')
            await d.op(('eio_connect', 'e0', {}))
            await d.op(('msg', 'e0', '0'))
            tracemalloc.start()
            tracemalloc.reset_peak()
            base = tracemalloc.get_traced_memory()[0]
            await d.op(('msg', 'e0', f))
            peak = tracemalloc.get_traced_memory()[1] - base
            tracemalloc.stop()
            peaks.append(peak)
        return peaks
    peaks = asyncio.run(measure())
    chk.extra['resource_guard'] = [{'frame': f[:40], 'declared': f[1:f.find('-')] if '-' in f[:14] else f[1:12],
                                    'peak_bytes': p} for f, p in zip(frames, peaks)]
    for f, p in zip(frames, peaks):
        chk.count(1, ('resource', f[:12]))
        if p > 200000 + 400 * len(f):
            chk.violation('allocation-proportional-to-declared-number',
                          'handling a %d-byte frame reserved %d bytes: memory grows with a number declared in the frame'
                          % (len(f), p), {'frame': f, 'peak_bytes': p})


def replay(chk, data):
    if 'frame' in data['replay']:
        print(data['replay'])
        return 1
    return srvprop.replay(chk, data, 'c12')
