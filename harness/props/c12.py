"""C12 - hostile input from one client cannot touch other clients or stop the server."""
from gen import server_hist
from props import srvprop, c01


INSERTED = {}      # id(history ops) -> (offender transport, indices of the injected messages)
DIRECTED = set()   # id(history ops) of the directed histories
NEST_P = 0.5        # share of the broadcasts without callback that get a nested offender packet
NIMPORTS = 'From VT Require Import Check.SrvCheck Check.C12XCheck.'


# ---- re-entrancy at the send (coq/Server/EmitNested.v, coq/Check/C12XCheck.v) ----
# ('emit_nested', event, data, to, room, skip, ns, n, inner): a broadcast during which, from inside the
# n-th send, a packet of the offender (or the loss of its transport) is processed; see srv.py::_op_hooked.
def split_segments(effs):
    """(sends before the nested operation, the nested operation's effects, sends after it)."""
    if ('NestedStart',) not in effs:
        return list(effs), [], []
    a = effs.index(('NestedStart',))
    b = effs.index(('NestedEnd',)) if ('NestedEnd',) in effs else len(effs)
    return list(effs[:a]), list(effs[a + 1:b]), [e for e in effs[b + 1:] if e not in (('NestedStart',), ('NestedEnd',))]


def c_nop(o, tbl):
    from drivers import srv
    from vt.coqio import pv, copt, cstr, cnat
    if o[0] == 'emit_nested':
        _, ev, data, to, room, skip, ns, n, inner = o
        return '(NEmit %s %s %s %s %s %s %s %s)' % (pv(ev), pv(data), pv(to), pv(room), pv(skip), copt(ns, cstr), cnat(n),
                                                   srv.c_op(inner, tbl))
    return '(NPlain %s)' % srv.c_op(o, tbl)


def model_view(ops, results):
    """Model-side view of a history.  `msg_hook` (the broadcast is performed by the event handler of a bystander)
    is not a model operation of its own: it is printed as the bystander's message followed by the offender's
    packet.  Equivalent on correct code when the handler performs ONE emit and returns and the nested operation
    is a packet: a broadcast without callback writes nothing (C12_emit_plain), its recipients are decided before
    the first send, no packet changes which transports are alive (C12_message_live) - so the sends after the nested
    packet are those of the sequential run, the nested packet runs in the state the message started in, and the
    acknowledgement follows.  (Nested transport loss: the sequential run would still send to the closed transport;
    such histories are left to the with / without comparison.)"""
    from props import srvcommon
    ops2, res2, origin = [], [], []
    for o, (effs, tbl) in zip(srvcommon.expand(ops), results):
        if o[0] == 'msg_hook':
            pre, inner, post = split_segments(effs)
            ops2.append(('msg', o[1], o[2]))
            res2.append((pre + post, tbl))
            origin.append('msg_hook')
            if ('NestedStart',) in effs:
                if o[4][0] != 'msg':
                    raise ValueError('msg_hook with a nested transport loss has no sequential equivalent')
                ops2.append(o[4])
                res2.append((inner, tbl))
                origin.append('msg_hook')
        else:
            ops2.append(o)
            res2.append((effs, tbl))
            origin.append(o[0])
    return ops2, res2, origin


def has_model(ops):
    return not any(o[0] == 'msg_hook' and o[4][0] != 'msg' for o in ops)


def ncase_term(cfg, ops, results, dump):
    from drivers import srv
    from vt.coqio import clist
    ops, results, _origin = model_view(ops, results)
    ops_t = [c_nop(o, tbl) for o, (effs, tbl) in zip(ops, results)]
    obs_t = ['(%s, %s, %s)' % tuple(clist([srv.c_eff(e) for e in seg]) for seg in split_segments(effs)) for effs, _ in results]
    return '(mkN %s %s %s %s)' % (srv.c_cfg(cfg), clist(ops_t), clist(obs_t), srv.c_dump(dump))


def _register():
    from props import srvcommon
    srvcommon.XKIND['c12'] = ('ncase', NIMPORTS, 'c12x_eval', ncase_term)


_register()


def strip_nested(o):
    """The same operation without the offender's nested packet."""
    if o[0] == 'emit_nested':
        return ('emit',) + tuple(o[1:7]) + (None,)
    if o[0] == 'msg_hook':
        return ('msg', o[1], o[2])
    return o


def offender_packet(rng, ser, off, ns):
    """What is processed from inside the send: the offender's DISCONNECT / CONNECT of the namespace the
    broadcast goes to, the loss of its transport, an event, or a malformed frame."""
    r = rng.random()
    if r < 0.3:
        return ('msg', off, server_hist.wire(ser, 1, ns))
    if r < 0.55:
        return ('msg', off, server_hist.wire(ser, 0, ns, None, rng.choice([None, None, {'t': 1}])))
    if r < 0.68:
        return ('close', off, rng.choice(server_hist.REASONS))
    if r < 0.78:
        return ('msg', off, server_hist.wire(ser, 2, ns, rng.choice([None, 3]), ['ev', 1]))
    if ser == 'msgpack':
        import msgpack
        g = msgpack.dumps({'type': rng.choice([0, 1, 2]), 'nsp': ns, 'data': ['ev', 1]})
        return ('msg', off, rng.choice([g[:-2], g + b'\x01', g + g, b'\xc1', msgpack.dumps({'type': 1}), msgpack.dumps([1])]))
    base = rng.choice([server_hist.frame(1, ns), server_hist.frame(0, ns), server_hist.frame(2, ns, 1, ['ev', 1]),
                       '51-' + server_hist.frame(2, ns, None, ['ev', {'_placeholder': True, 'num': 0}])[1:]])
    return ('msg', off, server_hist.eio_decode(c01.mutate(rng, base)))


def nest_emit(rng, cfg, o, off):
    """Turn a broadcast without callback into the re-entrant form."""
    ns = o[6] or '/'
    return ('emit_nested',) + tuple(o[1:7]) + (rng.randrange(1, 5), offender_packet(rng, cfg.get('serializer', 'default'), off, ns))


def directed_nested(rng, ser, n_model, n_handler):
    """Directed histories: 3-5 clients in one namespace, some of them in rooms; then broadcasts (to the
    namespace, a room, a list of rooms, a single session) with the offender's packet processed from inside
    the n-th send, each followed by an ordinary broadcast (are the others still served?).
    Returns (model family: API emits, no scripted actions - model operation NEmit; handler family: the broadcast
    is performed by a bystander's event handler - with / without comparison, and the model through the equivalent
    sequence of `model_view` unless the nested operation is a transport loss)."""
    fam_a, fam_b = [], []
    for i in range(n_model + n_handler):
        handler_family = i >= n_model
        ns = rng.choice(['/chat', '/chat', '/'])
        n_cl = rng.randrange(3, 6)
        off_i = rng.randrange(n_cl)
        eios = ['e%d' % j for j in range(n_cl)]
        off = eios[off_i]
        said = [('emit_room', 'said', rng.choice(['hi', {'k': 1}]), rng.choice([None, None, 'lobby']), rng.random() < 0.4)]
        cfg = {'handlers': {ns: {'connect': 1, 'disconnect': 2, 'ev': 3, 'say': 4}}, 'ns_handlers': {},
               'behav': {1: {'arity': 2, 'actions': [], 'outcome': ('ret', None)},
                         2: {'arity': rng.choice([1, 2]), 'actions': [], 'outcome': ('ret', None)},
                         3: {'arity': None, 'actions': [], 'outcome': ('ret', rng.choice([None, 'x']))},
                         4: {'arity': 2, 'actions': said if handler_family else [], 'outcome': ('ret', 'ok')}},
               'namespaces': [ns], 'always_connect': rng.random() < 0.3, 'serializer': ser}
        ops = []
        for e in eios:
            ops.append(('eio_connect', e, {'REMOTE_ADDR': e}))
            ops.append(('msg', e, server_hist.wire(ser, 0, ns)))
        sids = ['S%d' % j for j in range(n_cl)]
        for j in range(n_cl):
            if rng.random() < 0.6:
                ops.append(('enter', sids[j], 'lobby', ns))
            if rng.random() < 0.25:
                ops.append(('enter', sids[j], 'r2', ns))
        others = [s for j, s in enumerate(sids) if j != off_i]
        kinds = ['disconnect', 'connect', 'junk', 'event', 'close']
        rng.shuffle(kinds)
        kinds = kinds[:rng.randrange(2, 5)]
        if 'close' in kinds:            # the loss of the transport comes last: afterwards the offender is gone
            kinds.remove('close')
            kinds.append('close')
        connected = True
        for kind in kinds:
            if kind == 'disconnect':
                inner = ('msg', off, server_hist.wire(ser, 1, ns))
            elif kind == 'connect':
                if connected:           # leave first, so that the nested CONNECT is accepted
                    ops.append(('msg', off, server_hist.wire(ser, 1, ns)))
                inner = ('msg', off, server_hist.wire(ser, 0, ns))
            elif kind == 'close':
                inner = ('close', off, rng.choice(server_hist.REASONS))
            elif kind == 'event':
                inner = ('msg', off, server_hist.wire(ser, 2, ns, rng.choice([None, 2]), ['ev', 1]))
            else:
                inner = offender_packet(rng, ser, off, ns)
                while inner[0] != 'msg':
                    inner = offender_packet(rng, ser, off, ns)
            n = rng.randrange(1, n_cl + 1)
            if handler_family:
                who = rng.choice([e for e in eios if e != off])
                ops.append(('msg_hook', who, server_hist.wire(ser, 2, ns, rng.choice([5, None]), ['say', 'hi']), n, inner))
            else:
                to = rng.choice([None, None, 'lobby', 'lobby', ['lobby', 'r2'], ('r2', 'lobby'), sids[off_i], rng.choice(others)])
                skip = rng.choice([None, None, None, rng.choice(others), [sids[off_i]], sids[:2]])
                data = rng.choice(['x', 1, None, ('a', 2), {'k': [1]}] + ([{'b': b'\x00\x01'}, b'raw'] if ser == 'default' else []))
                use_room = rng.random() < 0.3
                ops.append(('emit_nested', 'news', data, None if use_room else to, to if use_room else None, skip, ns, n, inner))
            if kind in ('disconnect', 'connect', 'junk'):
                connected = (kind == 'connect') or (kind == 'junk' and connected)
            ops.append(('emit', 'after', 1, None, None, None, ns, None))
            ops.append(('msg', rng.choice([e for e in eios if e != off]), server_hist.wire(ser, 2, ns, 9, ['ev', 2])))
            if kind == 'disconnect' and rng.random() < 0.7:
                ops.append(('msg', off, server_hist.wire(ser, 0, ns)))      # the offender joins again
                connected = True
        INSERTED[id(ops)] = (off, set())
        DIRECTED.add(id(ops))
        (fam_b if handler_family else fam_a).append((cfg, ops))
    return fam_a, fam_b


def hostile(rng, cfg, ops):
    """Interleave a malformed stream from one offender with the bystanders' traffic."""
    eios = [o[1] for o in ops if o[0] == 'eio_connect']
    if not eios:
        return cfg, ops
    off = eios[0]
    out = []
    marks = set()
    INSERTED[id(out)] = (off, marks)
    for o in ops:
        if o[0] == 'emit' and o[7] is None and rng.random() < NEST_P:
            o = nest_emit(rng, cfg, o, off)
        out.append(o)
        if rng.random() < 0.45:
            base = rng.choice(['2["ev",1]', '2/chat,7["ev",{"a":1}]', '0/chat,{"t":1}', '3/chat,1["x"]', '1/a,',
                               '51-["ev",{"_placeholder":true,"num":0}]', '61-/chat,2[{"_placeholder":true,"num":0}]',
                               '2/a,["msg","x"]', '0'])
            wire = c01.mutate(rng, base) if rng.random() < 0.8 else base
            if rng.random() < 0.12:
                wire = rng.choice([b'\x00\x01', b'2["ev"]', '', 'true', '1.0', '[2]', '{"x":1}', '"0"', 'null'])
            marks.add(len(out))
            out.append(('msg', off, server_hist.eio_decode(wire)))
    return cfg, out


def hostile_msgpack(rng, cfg, ops):
    """The msgpack counterpart: blobs that are not exactly one well-formed packet."""
    import msgpack
    eios = [o[1] for o in ops if o[0] == 'eio_connect']
    if not eios:
        return cfg, ops
    off = eios[0]
    out = []
    marks = set()
    INSERTED[id(out)] = (off, marks)
    good = [msgpack.dumps({'type': 2, 'nsp': '/', 'data': ['ev', 1], 'id': 4}),
            msgpack.dumps({'type': 2, 'nsp': '/chat', 'data': ['msg', {'to': 'x', 'amount': 1000}]}),
            msgpack.dumps({'type': 3, 'nsp': '/', 'data': ['x'], 'id': 1}),
            msgpack.dumps({'type': 1, 'nsp': '/a'}), msgpack.dumps({'type': 0, 'nsp': '/chat', 'data': {}})]
    for o in ops:
        if o[0] == 'emit' and o[7] is None and rng.random() < NEST_P:
            o = nest_emit(rng, cfg, o, off)
        out.append(o)
        if rng.random() < 0.4:
            g = rng.choice(good)
            blob = rng.choice([g[:-2], g + b'\x01', g + rng.choice(good), g + g, b'\xc1', bytes([rng.randrange(256) for _ in range(5)]),
                               msgpack.dumps([1, 2]), msgpack.dumps(7), msgpack.dumps({'nsp': '/'}), msgpack.dumps({'type': 2}),
                               msgpack.dumps({'type': 9, 'nsp': '/', 'data': None}), msgpack.dumps({'type': 5, 'nsp': '/', 'data': ['ev']}),
                               g])
            marks.add(len(out))
            out.append(('msg', off, blob))
    return cfg, out


def offender_sids(results, off):
    """Session ids living on the offender's transport (read off the CONNECT replies it was sent)."""
    import re
    mine = set()
    for effs, _t in results:
        for e in effs:
            if e[0] == 'Out' and e[1] == off and isinstance(e[2], str) and e[2][:1] == '0':
                m = re.search(r'"sid":"(S\d+)"', e[2])
                if m:
                    mine.add(m.group(1))
            if e[0] == 'Out' and e[1] == off and isinstance(e[2], dict) and e[2].get('type') == 0 and \
                    isinstance(e[2].get('data'), dict) and 'sid' in e[2]['data']:
                mine.add(e[2]['data']['sid'])
    return mine


def bystander_run(cfg, ops, off, marks, mode, without):
    """(model-level operations with their index in the history, results) of the run with / without what
    the offender injected: the marked messages are removed, nested packets are taken out of the broadcasts."""
    from drivers import srv
    from props import srvcommon
    keep = [i for i in range(len(ops)) if not (without and i in marks)]
    run_ops = [strip_nested(ops[i]) if without else ops[i] for i in keep]
    mine, everybody = set(), set()

    def probe(d, _o):
        # ground truth: the session ids the manager holds (a CONNECT whose handler failed is registered
        # although it was never answered), those of the offender's transport apart
        for ns, rm in d.sio.manager.rooms.items():
            for sid, eio in list((rm.get(None) or {}).items()):
                everybody.add((ns, sid, eio))
                if eio == off:
                    mine.add(sid)
    results, _ = srv.run_history(cfg, run_ops, mode, probe=probe)
    expanded = [(i, x) for i, o in zip(keep, run_ops) for x in srvcommon.expand([o])]      # one result per MODEL operation
    return expanded, results, (mine | offender_sids(results, off), everybody)


def bystander_view(expanded, results, off, mine, directed=False):
    """What the clients other than the offender observe: effects of every operation that does not
    originate from the offender, restricted to the other transports / sessions, with session ids
    renamed by first appearance (the offender's CONNECT attempts consume ids)."""
    import re
    names = {}

    def ren(v):
        if isinstance(v, str):
            def sub(m):
                return names.setdefault(m.group(0), 'B%d' % len(names))
            return re.sub(r'S\d+', sub, v) if re.search(r'S\d+', v) else v
        if isinstance(v, (list, tuple)):
            return [ren(x) for x in v]
        if isinstance(v, dict):
            return {ren(a): ren(b) for a, b in v.items()}
        return v

    def mentions_mine(v):
        txt = repr(v)
        return any(re.search(r'\b%s\b' % sid, txt) for sid in mine)
    issued = sorted(x for x in set(re.findall(r'sid.{1,5}?(S\d+)', repr([e for effs, _t in results for e in effs if e[0] == 'Out'])))
                    if not (directed and x in mine))
    trace = []
    for (i, o), (effs, _t) in zip(expanded, results):
        if o[0] in ('msg', 'msg_nested', 'msg_sd', 'msg_hook', 'eio_connect', 'close') and o[1] == off:
            continue
        if o[0] in ('emit_nested', 'msg_hook'):
            # what the offender's nested packet does is judged by the step checker; here: the rest
            pre, _inner, post = split_segments(effs)
            effs = pre + post
            o = strip_nested(o)
        if mentions_mine(o):
            continue        # an API call addressed to the offender's own session
        view = []
        for e in effs:
            if e[0] == 'Out' and e[1] == off:
                continue
            if mentions_mine(e):
                continue
            if o[0] == 'enter' and e[0] == 'Raised' and e[1] in ('KeyError', 'ValueError'):
                # enter_room for a session that is gone fails either way; WHICH error the application sees depends
                # on whether anybody (the offender included) is still connected to that namespace, and the
                # offender's own connection state is outside the claim
                e = ('Raised', 'NotConnected')
            view.append(ren([e[0]] + [x for x in e[1:]]))
        trace.append(view)
    return issued, trace


def bystander_compare(cfg, ops, off, marks, mode, directed):
    """The two projected traces (with / without the offender), or None when the runs are not comparable: an
    injected message was itself an accepted CONNECT, it consumed a session id, so the positional ids used by the
    scripted API calls address different clients.  Random histories: every session id handed out must be the same
    in both runs; directed histories (every CONNECT is answered, no bystander connects after the offender's extra
    CONNECT): the bystanders' ids.  In both cases the ids must belong to the same clients (ground truth of the
    manager: (namespace, sid, transport))."""
    xa, ra, ma = bystander_run(cfg, ops, off, marks, mode, False)
    xb, rb, mb = bystander_run(cfg, ops, off, marks, mode, True)
    mine = ma[0] | mb[0]
    ia, a = bystander_view(xa, ra, off, mine, directed)
    ib, b = bystander_view(xb, rb, off, mine, directed)
    ia = sorted(set(ia) | set('%s|%s|%s' % x for x in ma[1] if not (directed and x[2] == off)))
    ib = sorted(set(ib) | set('%s|%s|%s' % x for x in mb[1] if not (directed and x[2] == off)))
    if ia != ib:
        return None
    return a, b


def bystander_check(chk, hs, sample):
    """The bystanders' view with and without the offender's injected messages / nested packets must be
    the same (a property of the implementation alone; compared inside Coq)."""
    from vt import coqio
    from vt.coqio import pv, clist
    cases, meta = [], []
    for i in sample:
        cfg, ops = hs[i]
        if id(ops) not in INSERTED:
            continue
        off, marks = INSERTED[id(ops)]
        for mode in ('sync', 'async'):
            try:
                r = bystander_compare(cfg, ops, off, marks, mode, id(ops) in DIRECTED)
                if r is None:
                    chk.dist('bystander comparison skipped (injected CONNECT accepted)')
                    continue
                a, b = r
                cases.append('(PGen 12%%N %s %s)' % (clist([pv(x) for x in a]), clist([pv(x) for x in b])))
                meta.append((i, mode))
                if any(o[0] in ('emit_nested', 'msg_hook') for o in ops):
                    chk.dist('bystander comparison with a nested offender packet')
            except Exception as e:
                chk.broken_obligation('bystander comparison failed on history %d: %r' % (i, e))
    if not cases:
        return
    codes, errors = coqio.eval_cases('c12_byst', 'From VT Require Import Check.C14Check.', '', 'c14case', cases, 'c14_eval', shard=40)
    for e in errors:
        chk.broken_obligation('case evaluation failed: ' + e)
    chk.extra['bystander_comparisons'] = len(cases)
    for idx, code in sorted(codes.items()):
        i, mode = meta[idx]
        cfg, ops = hs[i]
        chk.violation('bystander-trace-depends-on-offender',
                      'what the other clients observe changes when the offender\'s malformed messages / nested packets are '
                      'removed (%s server)' % mode,
                      {'py': repr((cfg, ops, mode)), 'offender': INSERTED[id(ops)][0], 'injected': sorted(INSERTED[id(ops)][1]),
                       'kind': 'bystander', 'directed': id(ops) in DIRECTED})
        break


def nontrivial(cfg, ops, results):
    from props import srvcommon
    rejected = 0
    fired = 0
    for o, (effs, _) in zip(srvcommon.expand(ops), results):
        if o[0] == 'msg' and not effs:
            rejected += 1
        if o[0] == 'emit_nested':
            pre, _inner, post = split_segments(effs)
            if ('NestedStart',) in effs and pre and post:
                fired += 1
    return (rejected >= 2 or fired >= 1) and sum(1 for o in ops if o[0] == 'eio_connect') >= 2


def first_bad(cfg, ops, mode):
    """Index (in the expanded history) of the first operation the Coq step checker rejects, or None."""
    import re
    from drivers import srv
    from vt import coqio
    results, dump = srv.run_history(cfg, ops, mode)
    term = ncase_term(cfg, ops, results, dump)
    rc, out = coqio.eval_print('c12_firstbad', NIMPORTS, 'Definition the_case := %s.' % term,
                               ['nfirst_bad (n_cfg the_case) srv_init (n_ops the_case) (n_obs the_case) 0'])
    m = re.search(r'=\s*Some\s+(\d+)', out)
    return int(m.group(1)) if m else None


def prop_sig(prefix):
    def sig(cfg, ops, mode):
        from props import srvcommon
        try:
            i = first_bad(cfg, ops, mode)
            from drivers import srv
            origin = model_view(ops, srv.run_history(cfg, ops, mode)[0])[2]
            if i is not None and origin[i] in ('emit_nested', 'msg_hook'):
                return '%s-%s-broadcast-interrupted-by-offender' % (prefix, mode)
        except Exception:
            pass
        return '%s-%s-property' % (prefix, mode)
    return sig


def run(chk):
    k = server_hist.Knobs(n_ops=22, refuse=0.1, actions=0.0)
    k.w.update({'junk': 3, 'binary': 1.5, 'event': 4, 'ack': 1.5, 'emit_cb': 1.5, 'session': 1})
    chk.assumptions = ["the offender's own connection may be left unusable (outside the claim)",
                       'msgpack serializer: see MsgPack notes in DESIGN.md (decode is the library oracle)',
                       're-entrant broadcasts: the offender\'s packet is processed from inside the send to one recipient on the '
                       'same thread / task (as when engine.io closes a client from inside a send); this stands for the '
                       'two-thread interleaving "the offender\'s thread runs between two sends of the broadcast"']
    from props import srvcommon, c03
    # a server that reserves memory in proportion to a declared number must fail here with MemoryError
    # (contained by engine.io) instead of taking the whole sandbox down
    import resource
    try:
        resource.setrlimit(resource.RLIMIT_AS, (6 << 30, 6 << 30))
    except (ValueError, OSError):
        pass
    chk.rule = ('histories of well-formed traffic of 2-5 clients with a malformed stream (grammar mutations of valid frames, '
                'engine.io-level JSON payloads, stray binary; msgpack: truncated / concatenated / trailing-byte / mistyped blobs) '
                'injected from one offender after ~45% of the operations; the Coq checker judges every offender message: no packet '
                'to another transport, no handler call on behalf of another sid, no foreign callback, other clients\' state '
                'projection unchanged, undecodable input reaches no handler; half of the broadcasts without callback, and '
                'directed histories (3-5 clients in a namespace / rooms), are re-entrant: a packet of the offender (DISCONNECT / '
                'CONNECT of the namespace, event, malformed frame, loss of its transport) is processed from inside the n-th '
                'send; the Coq checker (model operation NEmit of Server/EmitNested.v) demands the three observation segments '
                'of the model, every other addressed member served exactly once, no exception, and judges the nested packet; '
                'additionally the bystanders\' view of the run is compared with the run without the injected messages / '
                'nested packets (also for broadcasts performed by a bystander\'s event handler); non-trivial = >= 2 rejected '
                'messages or a nested packet between two sends, and >= 2 transports; distinct by effect signature')
    chk.trusted_base = list(srvprop.TRUSTED) + ['msgpack.loads / dumps as oracles (frames compared as the packed dict)',
                                                'hand model Server/EmitNested.v (tied by the same correspondence; '
                                                'C12_emit_plain ties it to Server.v)']
    chk.prove()
    rng = chk.rng
    hs = [h for h in srvcommon.load_corpus('c12') if not any(o[0] == 'msg_sd' for o in h[1])]
    for _ in range(1500 if chk.thorough else 110):
        cfg, ops = server_hist.gen_history(rng, k)
        hs.append(hostile(rng, cfg, ops))
    dir_a, dir_b = directed_nested(rng.sub('directed') if hasattr(rng, 'sub') else rng, 'default',
                                   120 if chk.thorough else 16, 60 if chk.thorough else 8)
    n_random = len(hs)
    hs += dir_a + [h for h in dir_b if has_model(h[1])]
    bad = srvcommon.run_histories(chk, 'c12', hs, nontrivial=nontrivial)
    c03.report(chk, 'c12', hs, bad, prop_sig('c12'))
    # the same with the msgpack serializer (frames are msgpack blobs; the msgpack library is an oracle)
    k2 = server_hist.Knobs(n_ops=22, refuse=0.1, actions=0.0, serializer='msgpack')
    k2.w.update({'junk': 1, 'binary': 1.5, 'event': 4, 'ack': 1.5, 'emit_cb': 1.5, 'session': 1})
    hs2 = []
    for _ in range(500 if chk.thorough else 45):
        cfg, ops = server_hist.gen_history(rng, k2)
        hs2.append(hostile_msgpack(rng, cfg, ops))
    dir_a2, dir_b2 = directed_nested(rng.sub('directed-msgpack') if hasattr(rng, 'sub') else rng, 'msgpack',
                                     40 if chk.thorough else 8, 20 if chk.thorough else 4)
    n_random2 = len(hs2)
    hs2 += dir_a2 + [h for h in dir_b2 if has_model(h[1])]
    bad2 = srvcommon.run_histories(chk, 'c12', hs2, nontrivial=nontrivial)
    c03.report(chk, 'c12', hs2, bad2, prop_sig('c12-msgpack'))
    # directed search / sample: bystander view with and without the offender
    allh = hs + hs2 + [h for h in dir_b + dir_b2 if not has_model(h[1])]
    suspects = [i for i, _m, _c, _t in bad] + [len(hs) + i for i, _m, _c, _t in bad2]
    sample = sorted(set(suspects[:10] + list(range(0, n_random, max(1, n_random // 12))) +
                        list(range(len(hs), len(hs) + n_random2, max(1, n_random2 // 12))) +
                        list(range(n_random, len(hs))) + list(range(len(hs) + n_random2, len(allh)))))
    chk.extra['directed_nested_histories'] = {'model (API emit)': len(dir_a) + len(dir_a2), 'handler emit': len(dir_b) + len(dir_b2)}
    bystander_check(chk, allh, sample)
    if not chk.violations:
        resource_guard(chk)


def resource_guard(chk):
    """Supporting measurement for the last clause of C12 (the theorems C12_guard_* / C12_bounded_state
    are about the model): memory reserved while a frame is handled must not grow with a number
    DECLARED inside the frame (attachment count, id), only with the bytes received."""
    import asyncio
    import tracemalloc
    from drivers import srv
    cfg = {'handlers': {'/': {'connect': 1, 'ev': 2}}, 'ns_handlers': {},
           'behav': {1: {'arity': 2, 'actions': [], 'outcome': ('ret', None)},
                     2: {'arity': None, 'actions': [], 'outcome': ('ret', None)}},
           'namespaces': ['/'], 'always_connect': False, 'serializer': 'default'}
    frames = ['5%d-["ev",{"_placeholder":true,"num":0}]' % n for n in (3, 3000, 300000, 3000000)] + \
             ['6%d-1[{"_placeholder":true,"num":0}]' % n for n in (3, 3000000)] + \
             ['2%d["ev"]' % (10 ** k) for k in (3, 30, 99)]

    async def measure():
        peaks = []
        for f in frames:
            d = srv.ServerDriver(cfg, 'sync')
            await d.op(('eio_connect', 'e0', {}))
            await d.op(('msg', 'e0', '0'))
            tracemalloc.start()
            tracemalloc.reset_peak()
            base = tracemalloc.get_traced_memory()[0]
            await d.op(('msg', 'e0', f))
            peak = tracemalloc.get_traced_memory()[1] - base
            tracemalloc.stop()
            peaks.append(peak)
        return peaks
    peaks = asyncio.run(measure())
    chk.extra['resource_guard'] = [{'frame': f[:40], 'declared': f[1:f.find('-')] if '-' in f[:14] else f[1:12],
                                    'peak_bytes': p} for f, p in zip(frames, peaks)]
    for f, p in zip(frames, peaks):
        chk.count(1, ('resource', f[:12]))
        if p > 200000 + 400 * len(f):
            chk.violation('allocation-proportional-to-declared-number',
                          'handling a %d-byte frame reserved %d bytes: memory grows with a number declared in the frame'
                          % (len(f), p), {'frame': f, 'peak_bytes': p})


def parity_traces(rng, n):
    """For C14 (threaded / asyncio parity of the server pair): the directed re-entrant broadcasts (API emit and
    emit performed by a bystander's event handler) executed on both servers; per-operation effects and final dump."""
    from drivers import srv

    def plain(v):
        if isinstance(v, (list, tuple)):
            return [plain(x) for x in v]
        if isinstance(v, dict):
            return {plain(a) if not isinstance(a, (list, tuple)) else repr(a): plain(b) for a, b in v.items()}
        return v
    out = []
    per = max(2, n // 8)
    for ser in ('default', 'msgpack'):
        fam_a, fam_b = directed_nested(rng, ser, per, per)
        for cfg, ops in fam_a + fam_b:
            rs, ds = srv.run_history(cfg, ops, 'sync', False)
            ra, da = srv.run_history(cfg, ops, 'async', True)
            ts = [plain([list(e) for e in effs]) for effs, _ in rs] + [plain(sorted(ds.items()))]
            ta = [plain([list(e) for e in effs]) for effs, _ in ra] + [plain(sorted(da.items()))]
            out.append(('server-nested-broadcast', (cfg, ops), ts, ta))
    return out


def replay(chk, data):
    import ast
    r = data['replay']
    if 'frame' in r:
        print(r)
        return 1
    if r.get('kind') == 'bystander':
        cfg, ops, mode = ast.literal_eval(r['py'])
        ops = [tuple(o) for o in ops]
        off, marks = r['offender'], set(r['injected'])
        res = bystander_compare(cfg, ops, off, marks, mode, bool(r.get('directed')))
        if res is None:
            print('the two runs hand out session ids to different clients: not comparable (skipped by the check)')
            return 0
        a, b = res
        bad = 0
        for j, (x, y) in enumerate(zip(a, b)):
            if x != y:
                bad += 1
                print('bystander view differs at projected operation %d:\n   with the offender   : %r\n   without the offender: %r' % (j, x, y))
        if len(a) != len(b):
            bad += 1
            print('projected traces have different lengths', len(a), len(b))
        return 1 if bad else 0
    cfg, ops, mode = ast.literal_eval(r['py'])
    ops = [tuple(o) for o in ops]
    from props import srvcommon
    from drivers import srv
    code, term = srvcommon.eval_one('c12', cfg, ops, mode)
    print('checker code (bit1 = model/implementation disagree, bit2 = property violated):', code)
    print('first operation rejected by the step checker:', first_bad(cfg, ops, mode))
    from vt import coqio
    rc, out = coqio.eval_print('c12_replay', NIMPORTS, 'Definition the_case := %s.' % term,
                               ['nfirst_diff (n_cfg the_case) srv_init (n_ops the_case) (n_obs the_case) 0'])
    print('first operation on which model and implementation differ:', out.strip().splitlines()[-2:] if out.strip() else out)
    res, _ = srv.run_history(cfg, ops, mode)
    for j, (o, (e, _t)) in enumerate(zip(*model_view(ops, res)[:2])):
        print(j, o, '=>', e)
    return 0 if code == 0 else 1
