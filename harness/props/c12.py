"""C12 - hostile input from one client cannot touch other clients or stop the server."""
from gen import server_hist
from props import srvprop, c01


def hostile(rng, cfg, ops):
    """Interleave a malformed stream from one offender with the bystanders' traffic."""
    eios = [o[1] for o in ops if o[0] == 'eio_connect']
    if not eios:
        return cfg, ops
    off = eios[0]
    out = []
    for o in ops:
        out.append(o)
        if rng.random() < 0.45:
            base = rng.choice(['2["ev",1]', '2/chat,7["ev",{"a":1}]', '0/chat,{"t":1}', '3/chat,1["x"]', '1/a,',
                               '51-["ev",{"_placeholder":true,"num":0}]', '61-/chat,2[{"_placeholder":true,"num":0}]',
                               '2/a,["msg","x"]', '0'])
            wire = c01.mutate(rng, base) if rng.random() < 0.8 else base
            if rng.random() < 0.12:
                wire = rng.choice([b'\x00\x01', b'2["ev"]', '', 'true', '1.0', '[2]', '{"x":1}', '"0"', 'null'])
            out.append(('msg', off, server_hist.eio_decode(wire)))
    return cfg, out


def nontrivial(cfg, ops, results):
    rejected = 0
    for o, (effs, _) in zip(ops, results):
        if o[0] == 'msg' and not effs:
            rejected += 1
    return rejected >= 2 and sum(1 for o in ops if o[0] == 'eio_connect') >= 2


def run(chk):
    k = server_hist.Knobs(n_ops=22, refuse=0.1, actions=0.0)
    k.w.update({'junk': 3, 'binary': 1.5, 'event': 4, 'ack': 1.5, 'emit_cb': 1.5, 'session': 1})
    chk.assumptions = ["the offender's own connection may be left unusable (outside the claim)",
                       'msgpack serializer: see MsgPack notes in DESIGN.md (decode is the library oracle)']
    srvprop.run(chk, 'c12', k, 110, 1500,
                'histories of well-formed traffic of 2-5 clients with a malformed stream (grammar mutations of valid frames, '
                'engine.io-level JSON payloads, stray binary) injected from one offender after ~45% of the operations; the Coq '
                'checker judges every offender message: no packet to another transport, no handler call on behalf of another '
                'sid, no foreign callback, other clients\' state projection unchanged, undecodable input reaches no handler; '
                'non-trivial = >= 2 rejected messages and >= 2 transports; distinct by effect signature',
                nontrivial, tweak=hostile)


    # the same with the msgpack serializer (frames are msgpack blobs; the msgpack library is an oracle)
    if not chk.broken:
        k2 = server_hist.Knobs(n_ops=22, refuse=0.1, actions=0.0, serializer='msgpack')
        k2.w.update({'junk': 4, 'binary': 1.5, 'event': 4, 'ack': 1.5, 'emit_cb': 1.5, 'session': 1})
        from props import srvcommon, c03
        hs = [server_hist.gen_history(chk.rng, k2) for _ in range(400 if chk.thorough else 40)]
        bad = srvcommon.run_histories(chk, 'c12', hs, nontrivial=nontrivial)
        c03.report(chk, 'c12', hs, bad, lambda cfg, ops, mode: 'c12-msgpack-%s-property' % mode)
    if not chk.violations:
        resource_guard(chk)


def resource_guard(chk):
    """Supporting measurement for the last clause of C12 (the theorems C12_guard_* / C12_bounded_state
    are about the model): memory reserved while a frame is handled must not grow with a number
    DECLARED inside the frame (attachment count, id), only with the bytes received."""
    import asyncio
    import tracemalloc
    from drivers import srv
    cfg = {'handlers': {'/': {'connect': 1, 'ev': 2}}, 'ns_handlers': {},
           'behav': {1: {'arity': 2, 'actions': [], 'outcome': ('ret', None)},
                     2: {'arity': None, 'actions': [], 'outcome': ('ret', None)}},
           'namespaces': ['/'], 'always_connect': False, 'serializer': 'default'}
    frames = ['5%d-["ev",{"_placeholder":true,"num":0}]' % n for n in (3, 3000, 300000, 3000000)] + \
             ['6%d-1[{"_placeholder":true,"num":0}]' % n for n in (3, 3000000)] + \
             ['2%d["ev"]' % (10 ** k) for k in (3, 30, 99)]

    async def measure():
        peaks = []
        for f in frames:
            d = srv.ServerDriver(cfg, 'sync')
            await d.op(('eio_connect', 'e0', {}))
            await d.op(('msg', 'e0', '0'))
            tracemalloc.start()
            tracemalloc.reset_peak()
            base = tracemalloc.get_traced_memory()[0]
            await d.op(('msg', 'e0', f))
            peak = tracemalloc.get_traced_memory()[1] - base
            tracemalloc.stop()
            peaks.append(peak)
        return peaks
    peaks = asyncio.run(measure())
    chk.extra['resource_guard'] = [{'frame': f[:40], 'declared': f[1:f.find('-')] if '-' in f[:14] else f[1:12],
                                    'peak_bytes': p} for f, p in zip(frames, peaks)]
    for f, p in zip(frames, peaks):
        chk.count(1, ('resource', f[:12]))
        if p > 200000 + 400 * len(f):
            chk.violation('allocation-proportional-to-declared-number',
                          'handling a %d-byte frame reserved %d bytes: memory grows with a number declared in the frame'
                          % (len(f), p), {'frame': f, 'peak_bytes': p})


def replay(chk, data):
    if 'frame' in data['replay']:
        print(data['replay'])
        return 1
    return srvprop.replay(chk, data, 'c12')
