"""C04, asyncio-interleaving part: for the AsyncServer, every interleaving (at every suspension
point of sends and handlers) of two and three concurrent terminating causes - disconnect(),
the client's DISCONNECT packet, loss of the transport, disconnect of another namespace of the
same transport - runs the disconnect handler exactly once with a reason naming one of the
causes in progress, raises nothing, leaves nothing behind and does not affect other namespaces.

Tie: the REAL socketio.AsyncServer under the gate scheduler of drivers/sched_srv.py; every run
is replayed against the asyncio-granularity model of coq/Conc/ServerConc.v inside Coq (bit 1)
and judged by the checker of coq/Check/C20Check.v on the implementation's own trace (bit 2).

Connect in progress (run_connect_part, notes/C04.md): the same causes beside a CONNECT for another
namespace of the same transport whose coroutine connect handler is suspended (accepting or
refusing, always_connect off / on), or a CONNECT of another transport to the SAME namespace as the
established session, registered at any moment (x_plan_same_ns); driver drivers/sched_conn.py, model coq/Conc/ConnConc.v,
checker coq/Check/C04ConnCheck.v (established sessions: C20Check's clauses unchanged; the new
session, the connect handler count and the answer to the client in addition).

Not registered in the manifest on its own: `run_async_part(chk)` is meant to be called from
props/c04.py after its own `chk.prove()`; `run(chk)` is the stand-alone entry used by
`check.py C04ASYNC`."""
import itertools
import os

from vt import common, coqio
from drivers import sched_srv as S
from props import c20
from props.c20 import scenario, LONE, FULL
from vt.coqio import clist, cbool

PROPS_FILE = 'C04Async'

WITNESSES = []      # the asyncio theorem has no refutation witness


def plan(thorough):
    out = []
    pool = ['api', 'cli', 'loss', 'ocli', 'oapi']
    for k in (2, 3):
        for names in itertools.combinations_with_replacement(pool, k):
            if names.count('loss') <= 1:
                out.append(('full ' + '+'.join(names), scenario(FULL, names), 'all'))
        for names in itertools.combinations_with_replacement(['api', 'cli', 'loss'], k):
            if names.count('loss') <= 1:
                out.append(('lone ' + '+'.join(names), scenario(LONE, names), 'all'))
    # a raising handler must not change anything else (try/finally of the fixed code)
    for names in (('api', 'cli'), ('cli', 'loss'), ('api', 'loss', 'oapi')):
        out.append(('full %s raising' % '+'.join(names), scenario(FULL, names, raising=['S0', 'S1']), 'all'))
    out.append(('lone api+cli+loss raising', scenario(LONE, ('api', 'cli', 'loss'), raising=['S0']), 'all'))
    if thorough:
        for names in itertools.combinations_with_replacement(pool, 4):
            if names.count('loss') <= 1 and len(set(names)) >= 3:
                out.append(('full ' + '+'.join(names), scenario(FULL, names), ('bounded', 3, 200)))
    return out


def prove_async(chk):
    """What chk.prove() does, for Props/C04Async.v (adds to the obligations already counted)."""
    ok, out = coqio.build(['Props/%s.v' % PROPS_FILE, 'Check/C20Check.v'])
    chk.checker_cmds.append('make -C coq -j%d Props/%s.vo Check/C20Check.vo' % (common.NCPU, PROPS_FILE))
    if not ok:
        chk.broken_obligation('coq build failed in %s: %s' % (coqio.failed_files(out) or '?', out[-1200:]))
        return False
    names, closed, details, raw = coqio.props_assumptions(PROPS_FILE)
    chk.checker_cmds.append('coqc -Q coq VT coq/Props/%s.v  (Print Assumptions under every theorem)' % PROPS_FILE)
    chk.obligation_names = list(chk.obligation_names) + names
    chk.obligations += len(names)
    chk.discharged += min(closed, len(names))
    if details:
        chk.broken_obligation('assumptions: ' + '; '.join(details))
    if closed < len(names):
        chk.broken_obligation('only %d of %d theorems of %s closed under the global context' % (
            closed, len(names), PROPS_FILE))
    if chk.thorough:
        rc, out = coqio.run(['coqchk', '-silent', '-o', '-Q', common.COQ, 'VT', 'VT.Props.' + PROPS_FILE],
                            3000, cwd=common.COQ)
        chk.checker_cmds.append('coqchk -silent -o -Q coq VT VT.Props.%s' % PROPS_FILE)
        if rc != 0:
            chk.broken_obligation('coqchk failed: ' + out[-1500:])
    return True


def run_async_part(chk):
    """Generation, evaluation and reporting of the interleaving part (no chk.prove(), no finish)."""
    chk.trusted_base = list(chk.trusted_base) + [t for t in c20.TRUSTED if t not in chk.trusted_base]
    chk.assumptions = list(chk.assumptions) + [
        'asyncio part: only terminating causes run concurrently; coroutine disconnect handlers suspend once and do '
        'not call back into the server API; every send suspends once',
        'asyncio part: `await manager.can_disconnect()` / `await manager.disconnect()` and everything between two '
        'gates do not suspend - checked on every run: any other real suspension becomes a scheduling point of the '
        'explorer and a label the model does not produce']
    prove_async(chk)
    defs, cases, meta = c20.collect(chk, 'asyncio', 'GAsync', plan(chk.thorough), WITNESSES)
    c20.judge(chk, 'c04async', defs, cases, meta, 'c04async-correspondence')
    run_connect_part(chk)



# ---------------------------------------------------------------------------------------
# CONNECT IN PROGRESS beside the terminating causes (model coq/Conc/ConnConc.v, checker
# coq/Check/C04ConnCheck.v, driver drivers/sched_conn.py)
# ---------------------------------------------------------------------------------------
X_IMPORTS = 'From VT Require Import Check.C04ConnCheck.'
X_CLAUSES = c20.CLAUSES + [
    (1024, 'connect-handler-count', 'the connect handler did not run exactly once for an admitted CONNECT (or ran for a '
                                    'duplicate one)'),
    (2048, 'connect-answer', 'every task has finished and the client was not answered exactly once (CONNECT with the '
                             'session id / CONNECT_ERROR / CONNECT + DISCONNECT with always_connect)'),
]
# FULL plus a second transport on the namespace that is being connected to (the namespace table survives)
FULLC = FULL + [('connect', 'e1', '/c')]
# a further live transport (on "/b" only) from which a CONNECT to the namespace of the established session S0 can come
LONET = LONE + [('connect', 'e1', '/b')]
FULLT = FULL + [('connect', 'e2', '/b')]
X_CAUSE = dict(c20.CAUSE)


def x_scenario(setup, names, conns, always_connect=False, raising=()):
    """conns: [(eio, ns, 'accept' | 'false')]; the terminating causes 'ccli' / 'capi' are aimed at the session
    the first connect creates."""
    n0 = sum(1 for op in setup if op[0] == 'connect')
    cause = dict(X_CAUSE)
    if conns:
        cause['ccli'] = ('client', conns[0][0], conns[0][1])
        cause['capi'] = ('api', 'S%d' % n0, conns[0][1])
    return {'setup': [list(x) for x in setup], 'raising': list(raising), 'always_connect': bool(always_connect),
            'causes': [list(cause[n]) for n in names] + [['connect'] + list(c) for c in conns]}


def x_split(sc):
    n0 = sum(1 for op in sc['setup'] if op[0] == 'connect')
    term = [c for c in sc['causes'] if c[0] != 'connect']
    conns = [c for c in sc['causes'] if c[0] == 'connect']
    if sc['causes'][:len(term)] != term:
        raise ValueError('connect causes must come last: %r' % (sc['causes'],))
    return term, [(c[1], c[2], 'S%d' % (n0 + i), c[3]) for i, c in enumerate(conns)]


def xlbl_term(l):
    try:
        if l[0] == 'Connect':
            return '(XConnect %s %s %s)' % (c20._s(l[1]), c20._s(l[2]), c20._os(l[3]))
        if l[0] == 'EnvGet':
            return '(XEnvGet %s %s)' % (c20._s(l[1]), cbool(bool(l[2])))
        if l[0] == 'CHandler':
            return '(XCHandler %s %s)' % (c20._s(l[1]), c20._s(l[2]))
    except (c20.Unprintable, IndexError, TypeError):
        return '(XL (LOther 9))'
    return '(XL %s)' % c20.lbl_term(l)


class XDefs(c20.Defs):
    def name(self, sc):
        key = repr(sc)
        if key not in self.names:
            k = len(self.names)
            term, conns = x_split(sc)
            self.lines.append('Definition su_%d := %s.' % (k, c20.setup_terms(sc['setup'])))
            self.lines.append('Definition rs_%d : list str := %s.' % (k, clist([c20.q(x) for x in sc['raising']])))
            self.lines.append('Definition cs_%d := %s.' % (k, clist([c20.cause_term(c) for c in term])))
            self.lines.append('Definition ks_%d := %s.' % (k, clist([
                'mkConn %s %s %s %s' % (c20.q(e), c20.q(ns), c20.q(sid), cbool(out == 'accept'))
                for e, ns, sid, out in conns])))
            self.names[key] = ('su_%d' % k, 'rs_%d' % k, 'cs_%d' % k, 'ks_%d' % k)
        return self.names[key]


def xcase_term(sc, names, r):
    return '(XCase %s %s %s %s %s %s %s %s %s)' % (
        names[0], cbool(bool(sc.get('always_connect'))), names[1], names[2], names[3],
        clist([str(c) for c in r.schedule]),
        clist([clist([xlbl_term(l) for l in step]) for step in r.trace]),
        c20.dump_term(r.final), cbool(r.alldone))


def x_plan(thorough):
    """(name, scenario, how): every interleaving AFTER the prefix that brings the connect to its suspended handler
    ('all'), or those with a bounded number of pre-emptions plus random walks."""
    out = []
    conn = ('e0', '/c')
    pool = ['api', 'cli', 'loss', 'ocli', 'oapi', 'ccli', 'capi']
    all_pairs = [c for c in itertools.combinations_with_replacement(pool, 2) if c.count('loss') <= 1]

    def removes_new(names):         # causes that end the session the CONNECT creates
        return any(n in ('loss', 'ccli', 'capi') for n in names)
    for ac in (False, True):
        for outc in ('accept', 'false'):
            tag = '%s%s' % (outc, '+always_connect' if ac else '')
            combos = [((n,), 'all') for n in pool]
            if thorough:
                combos += [(c, 'all') for c in all_pairs]
            elif not ac:
                combos += [(c, 'all') for c in (('api', 'cli'), ('cli', 'loss'), ('cli', 'ccli'), ('loss', 'ccli'))]
                combos += [(c, ('bounded', 1, 12)) for c in (('api', 'loss'), ('loss', 'ocli'), ('loss', 'capi'),
                                                             ('api', 'capi'), ('loss', 'oapi'), ('cli', 'oapi'))]
            else:
                combos += [(('cli', 'loss'), 'all'), (('api', 'loss'), ('bounded', 1, 12)),
                           (('loss', 'ccli'), ('bounded', 1, 12))]
            for names, how in combos:
                out.append(('conn %s full %s' % (tag, '+'.join(names)),
                            x_scenario(FULL, names, [conn + (outc,)], ac), how))
                if ac and outc == 'false' and removes_new(names) and (thorough or len(names) == 1):
                    # somebody else keeps the namespace table alive: the refusal's pre_disconnect does not raise
                    out.append(('conn %s fullc %s' % (tag, '+'.join(names)),
                                x_scenario(FULLC, names, [conn + (outc,)], ac), how))
            for names in (('cli',), ('loss',), ('cli', 'loss')) + ((('api', 'loss'), ('api', 'cli')) if thorough else ()):
                out.append(('conn %s lone %s' % (tag, '+'.join(names)),
                            x_scenario(LONE, names, [conn + (outc,)], ac), 'all'))
    # a repeated CONNECT for a namespace the transport is on already (refused without a handler), a raising
    # disconnect handler, and two requests in progress at once
    out.append(('conn duplicate full cli+loss', x_scenario(FULL, ('cli', 'loss'), [('e0', '/b', 'accept')]), 'all'))
    out.append(('conn accept full cli+loss raising',
                x_scenario(FULL, ('cli', 'loss'), [conn + ('accept',)], raising=['S0', 'S3']),
                'all' if thorough else ('bounded', 1, 12)))
    out.append(('conn accept+false full loss', x_scenario(FULL, ('loss',), [conn + ('accept',), ('e0', '/d', 'false')]),
                'all' if thorough else ('bounded', 1, 12)))
    out.append(('conn accept(e0)+accept(e1) full api+loss',
                x_scenario(FULL, ('api', 'loss'), [conn + ('accept',), ('e1', '/c', 'accept')]),
                ('bounded', 2, 100) if thorough else ('bounded', 1, 12)))
    out += x_plan_same_ns(thorough)
    if thorough:
        for outc in ('accept', 'false'):
            for names in itertools.combinations_with_replacement(['api', 'cli', 'loss', 'ocli', 'capi'], 3):
                if names.count('loss') <= 1 and len(set(names)) >= 2:
                    out.append(('conn %s full %s' % (outc, '+'.join(names)),
                                x_scenario(FULL, names, [conn + (outc,)]), ('bounded', 2, 60)))
    return out


def x_plan_same_ns(thorough):
    """A CONNECT of ANOTHER transport to the SAME namespace as the established session S0 ("/"), beside the terminating
    causes of S0.  'free' scenarios have no fixed prefix: the request may be registered at any moment, before, between
    or after the blocks of the terminating causes (the other transport is not lost, so its environ is there), which
    also covers a connect handler that does not suspend (its blocks then run back to back: a subset of the schedules
    explored); the others start with the connect in progress as everywhere above."""
    out = []
    for ac in (False, True):
        for outc in ('accept', 'false'):
            tag = 'same-ns %s%s' % (outc, '+always_connect' if ac else '')
            lone = [(('cli', 'loss'), 'all'), (('api', 'cli'), 'all'), (('api', 'loss'), 'all' if thorough else ('bounded', 2, 20))]
            if thorough:
                lone += [(('api', 'api'), 'all'), (('cli', 'cli'), 'all'), (('api', 'cli', 'loss'), ('bounded', 3, 300))]
            for names, how in lone:
                sc = x_scenario(LONET, names, [('e1', '/', outc)], ac)
                sc['free_start'] = True
                out.append(('conn %s free lone %s' % (tag, '+'.join(names)), sc, how))
            full = [(('cli', 'loss'), 'all' if (thorough or not ac) else ('bounded', 1, 12)),
                    (('api', 'cli'), 'all' if thorough else ('bounded', 1, 12)),
                    (('api', 'loss'), 'all' if thorough else ('bounded', 1, 12))]
            if thorough:
                full += [(('loss', 'ocli'), 'all'), (('cli', 'oapi'), 'all')]
            for names, how in full:
                out.append(('conn %s full %s' % (tag, '+'.join(names)),
                            x_scenario(FULLT, names, [('e2', '/', outc)], ac), how))
    sc = x_scenario(FULLT, ('cli', 'loss'), [('e2', '/', 'false')], raising=['S0'])
    sc['free_start'] = True
    out.append(('conn same-ns false free full cli+loss raising', sc, ('bounded', 2, 40) if thorough else ('bounded', 1, 12)))
    return out


def _x_explore_one(task):
    name, sc, how, seed, cap = task
    from drivers import sched_conn as X
    rng = common.Rng(seed).sub('C04conn/%s' % name)
    prefix = [] if sc.get('free_start') else X.prefix_of(sc)
    out = []

    def add(r, kind):
        out.append({'kind': kind, 'schedule': list(r.schedule), 'trace': r.trace, 'final': r.final,
                    'alldone': r.alldone, 'error': r.error, 'sw': c20.switches_in_flight(r)})
    if how == 'all':
        for r in X.explore_from(sc, prefix, limit=cap):
            add(r, 'exhaustive after the connect prefix')
    else:
        _, k, walks = how
        for r in X.explore_from(sc, prefix, limit=cap, max_preempt=k + len(prefix)):
            add(r, 'preemptions<=%d after the connect prefix' % k)
        for _ in range(walks):
            add(X.random_walk_from(sc, prefix, rng), 'random walk after the connect prefix')
    for _ in range(2):
        add(X.random_walk_from(sc, prefix, rng, noop_rate=0.25), 'walk with no-ops after the connect prefix')
    X.close_loop()
    return out


def x_signature(code, sc):
    """Structural class of a violating run with a connect in progress."""
    names = [name for bit, name, _ in X_CLAUSES if code & bit]
    return '+'.join(names) + ('-in-double-check-window' if code & 256 else '') + '-with-connect-in-progress@asyncio'


def x_what(code):
    return '; '.join(text for bit, _, text in X_CLAUSES if code & bit) + \
        ('; pre_disconnect raised KeyError' if code & 512 else '')


def x_collect(chk, the_plan):
    import multiprocessing
    defs = XDefs()
    cases, meta = [], []
    n_err = 0
    cap = 200000 if chk.thorough else 6000
    tasks = [(name, sc, how, chk.rng.seed_value, cap) for name, sc, how in the_plan]
    ctx = multiprocessing.get_context('fork')
    with ctx.Pool(min(common.NCPU, max(1, len(tasks)))) as pool:
        results = pool.map(_x_explore_one, tasks, chunksize=1)
    for (name, sc, how), recs in zip(the_plan, results):
        for rec in recs:
            r = c20.Lite(rec)
            cases.append(xcase_term(sc, defs.name(sc), r))
            meta.append({'mode': 'asyncio-connect', 'scenario': name, 'sc': sc, 'schedule': r.schedule, 'kind': r.kind,
                         'order': len(defs.names), 'error': r.error})
            sample = None
            if r.sw and len(chk.samples) < 8 and len(meta) % 197 == 0:
                sample = {'mode': 'asyncio-connect', 'scenario': name, 'schedule': r.schedule,
                          'trace': [[' '.join(map(str, l)) for l in st] for st in r.trace][:16]}
            chk.count(1, ('asyncio-connect', name, tuple(r.schedule)) if r.sw else None, sample)
            chk.dist('asyncio connect-in-progress %s' % r.kind)
            if r.error:
                n_err += 1
                if n_err <= 3:
                    chk.broken_obligation('driver error on connect-in-progress %r %s: %s' % (name, r.schedule, r.error))
    if n_err:
        chk.broken_obligation('%d connect-in-progress runs ended in a driver error' % n_err)
    return defs, cases, meta


def x_judge(chk, defs, cases, meta):
    codes, errors = coqio.eval_cases('c04conn', X_IMPORTS, defs.text(), 'xcase', cases, 'c04conn_eval', shard=700)
    chk.traces_validated += len(cases)
    for e in errors:
        chk.broken_obligation('case evaluation failed: ' + e)
    n_disagree = sum(1 for c in codes.values() if c & 1)
    if n_disagree:
        chk.broken_obligation('correspondence: model coq/Conc/ConnConc.v and implementation disagree on %d of %d '
                              'connect-in-progress runs' % (n_disagree, len(cases)))
    best, count, shown = {}, {}, 0
    for idx, code in sorted(codes.items()):
        m = meta[idx]
        if code & 1 and shown < 4:
            shown += 1
            chk.broken_obligation('correspondence: model and asyncio server disagree on scenario %r schedule %s' % (
                m['scenario'], m['schedule']))
        if code & 2:
            sig = x_signature(code, m['sc'])
            count[sig] = count.get(sig, 0) + 1
            cur = best.get(sig)
            if cur is None or c20._size(m) < c20._size(meta[cur[0]]):
                best[sig] = (idx, code)
    if n_disagree and not any(c & 2 for c in codes.values()):
        m = meta[min(i for i, c in codes.items() if c & 1)]
        chk.violation('c04conn-correspondence', 'model coq/Conc/ConnConc.v and the real asyncio server disagree',
                      c20._replay_of(m, None), no_input=True)
    for sig, (idx, code) in sorted(best.items()):
        m = meta[idx]
        chk.violation(sig, '%s (minimal schedule found: asyncio, always_connect=%s, causes %s, schedule %s; %d violating '
                           'runs of this class)' % (x_what(code), bool(m['sc'].get('always_connect')), m['sc']['causes'],
                                                    m['schedule'], count[sig]), c20._replay_of(m, None))
    chk.extra.setdefault('violating_runs_by_signature', {}).update(count)
    return codes


def run_connect_part(chk):
    """Terminating causes against a CONNECT whose coroutine handler is suspended (same transport, other namespace)."""
    chk.assumptions = list(chk.assumptions) + [
        'asyncio part, connect in progress: the CONNECT has been registered (manager.connect) and its coroutine connect '
        'handler is suspended before any terminating cause starts (fixed schedule prefix); everything after that is '
        'interleaved freely; `await manager.connect()` does not suspend (checked on every run)']
    ok, out = coqio.build(['Check/C04ConnCheck.v'])
    chk.checker_cmds.append('make -C coq -j%d Check/C04ConnCheck.vo' % common.NCPU)
    if not ok:
        chk.broken_obligation('coq build failed in %s: %s' % (coqio.failed_files(out) or '?', out[-1200:]))
        return
    defs, cases, meta = x_collect(chk, x_plan(chk.thorough))
    x_judge(chk, defs, cases, meta)


def x_replay(rp, tag):
    from drivers import sched_conn as X
    sc = rp['sc']
    r = X.run_conn(sc, rp['schedule'])
    X.close_loop()
    print('mode=asyncio-connect always_connect=%s causes=%s raising=%s' % (
        bool(sc.get('always_connect')), sc['causes'], sc['raising']))
    print('  initial: %s' % r.initial)
    for ch, labels in zip(r.schedule, r.trace):
        print('  task %d: %s' % (ch, labels))
    print('  final: %s alldone=%s error=%s' % (r.final, r.alldone, r.error))
    defs = XDefs()
    case = xcase_term(sc, defs.name(sc), r)
    rc, out = coqio.eval_print(tag, X_IMPORTS, defs.text(), ['c04conn_eval %s' % case, 'c04conn_explain %s' % case])
    print(out)
    first = out.split('\n')[0] if out else ''
    try:
        code = int(first.split('=')[1].split(':')[0].strip().rstrip('%nat'))
    except (IndexError, ValueError):
        code = -1
    if code > 0 and code & 2:
        print('signature: %s - %s' % (x_signature(code, sc), x_what(code)))
    if code > 0 and code & 1:
        print('model and implementation disagree on this schedule')
    return 0 if code == 0 else 1


def run(chk):
    chk.rule = ('scheduled runs of the real AsyncServer with 2 and 3 (thorough: also 4) concurrent terminating causes, '
                'every interleaving at the suspension points of sends and handlers; a case is non-trivial when at '
                'least one block of a cause runs while another cause is in flight; distinct by (scenario, schedule)')
    chk.trusted_base = []
    chk.assumptions = []
    chk.regenerate()
    hits = coqio.grep_gate()
    if hits:
        chk.broken_obligation('forbidden vernacular: ' + '; '.join(hits[:5]))
    run_async_part(chk)


def replay(chk, data):
    rp = data['replay']
    if 'schedule' not in rp:
        print('nothing to replay: %s' % rp)
        return 1
    if rp.get('mode') == 'asyncio-connect':
        return x_replay(rp, 'c04conn_replay')
    return c20.replay_run(rp, 'c04async_replay')
