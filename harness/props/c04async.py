"""C04, asyncio-interleaving part: for the AsyncServer, every interleaving (at every suspension
point of sends and handlers) of two and three concurrent terminating causes - disconnect(),
the client's DISCONNECT packet, loss of the transport, disconnect of another namespace of the
same transport - runs the disconnect handler exactly once with a reason naming one of the
causes in progress, raises nothing, leaves nothing behind and does not affect other namespaces.

Tie: the REAL socketio.AsyncServer under the gate scheduler of drivers/sched_srv.py; every run
is replayed against the asyncio-granularity model of coq/Conc/ServerConc.v inside Coq (bit 1)
and judged by the checker of coq/Check/C20Check.v on the implementation's own trace (bit 2).

Not registered in the manifest on its own: `run_async_part(chk)` is meant to be called from
props/c04.py after its own `chk.prove()`; `run(chk)` is the stand-alone entry used by
`check.py C04ASYNC`."""
import itertools
import os

from vt import common, coqio
from drivers import sched_srv as S
from props import c20
from props.c20 import scenario, LONE, FULL

PROPS_FILE = 'C04Async'

WITNESSES = []      # the asyncio theorem has no refutation witness


def plan(thorough):
    out = []
    pool = ['api', 'cli', 'loss', 'ocli', 'oapi']
    for k in (2, 3):
        for names in itertools.combinations_with_replacement(pool, k):
            if names.count('loss') <= 1:
                out.append(('full ' + '+'.join(names), scenario(FULL, names), 'all'))
        for names in itertools.combinations_with_replacement(['api', 'cli', 'loss'], k):
            if names.count('loss') <= 1:
                out.append(('lone ' + '+'.join(names), scenario(LONE, names), 'all'))
    # a raising handler must not change anything else (try/finally of the fixed code)
    for names in (('api', 'cli'), ('cli', 'loss'), ('api', 'loss', 'oapi')):
        out.append(('full %s raising' % '+'.join(names), scenario(FULL, names, raising=['S0', 'S1']), 'all'))
    out.append(('lone api+cli+loss raising', scenario(LONE, ('api', 'cli', 'loss'), raising=['S0']), 'all'))
    if thorough:
        for names in itertools.combinations_with_replacement(pool, 4):
            if names.count('loss') <= 1 and len(set(names)) >= 3:
                out.append(('full ' + '+'.join(names), scenario(FULL, names), ('bounded', 3, 200)))
    return out


def prove_async(chk):
    """What chk.prove() does, for Props/C04Async.v (adds to the obligations already counted)."""
    ok, out = coqio.build(['Props/%s.v' % PROPS_FILE, 'Check/C20Check.v'])
    chk.checker_cmds.append('make -C coq -j%d Props/%s.vo Check/C20Check.vo' % (common.NCPU, PROPS_FILE))
    if not ok:
        chk.broken_obligation('coq build failed in %s: %s' % (coqio.failed_files(out) or '?', out[-1200:]))
        return False
    names, closed, details, raw = coqio.props_assumptions(PROPS_FILE)
    chk.checker_cmds.append('coqc -Q coq VT coq/Props/%s.v  (Print Assumptions under every theorem)' % PROPS_FILE)
    chk.obligation_names = list(chk.obligation_names) + names
    chk.obligations += len(names)
    chk.discharged += min(closed, len(names))
    if details:
        chk.broken_obligation('assumptions: ' + '; '.join(details))
    if closed < len(names):
        chk.broken_obligation('only %d of %d theorems of %s closed under the global context' % (
            closed, len(names), PROPS_FILE))
    if chk.thorough:
        rc, out = coqio.run(['coqchk', '-silent', '-o', '-Q', common.COQ, 'VT', 'VT.Props.' + PROPS_FILE],
                            3000, cwd=common.COQ)
        chk.checker_cmds.append('coqchk -silent -o -Q coq VT VT.Props.%s' % PROPS_FILE)
        if rc != 0:
            chk.broken_obligation('coqchk failed: ' + out[-1500:])
    return True


def run_async_part(chk):
    """Generation, evaluation and reporting of the interleaving part (no chk.prove(), no finish)."""
    chk.trusted_base = list(chk.trusted_base) + [t for t in c20.TRUSTED if t not in chk.trusted_base]
    chk.assumptions = list(chk.assumptions) + [
        'asyncio part: only terminating causes run concurrently; coroutine disconnect handlers suspend once and do '
        'not call back into the server API; every send suspends once',
        'asyncio part: `await manager.can_disconnect()` / `await manager.disconnect()` and everything between two '
        'gates do not suspend - checked on every run: any other real suspension becomes a scheduling point of the '
        'explorer and a label the model does not produce']
    prove_async(chk)
    defs, cases, meta = c20.collect(chk, 'asyncio', 'GAsync', plan(chk.thorough), WITNESSES)
    c20.judge(chk, 'c04async', defs, cases, meta, 'c04async-correspondence')


def run(chk):
    chk.rule = ('scheduled runs of the real AsyncServer with 2 and 3 (thorough: also 4) concurrent terminating causes, '
                'every interleaving at the suspension points of sends and handlers; a case is non-trivial when at '
                'least one block of a cause runs while another cause is in flight; distinct by (scenario, schedule)')
    chk.trusted_base = []
    chk.assumptions = []
    chk.regenerate()
    hits = coqio.grep_gate()
    if hits:
        chk.broken_obligation('forbidden vernacular: ' + '; '.join(hits[:5]))
    run_async_part(chk)


def replay(chk, data):
    rp = data['replay']
    if 'schedule' not in rp:
        print('nothing to replay: %s' % rp)
        return 1
    return c20.replay_run(rp, 'c04async_replay')
