"""C16 - user sessions are private to one client connection and namespace."""
from gen import server_hist
from props import srvprop


def nontrivial(cfg, ops, results):
    saved = set((o[1], o[-1] if o[0] == 'save_session' else o[2]) for o in ops if o[0] in ('save_session', 'session_set', 'session_replace', 'session_nested', 'session_span'))
    recon = sum(1 for o in ops if o[0] == 'msg' and isinstance(o[2], str) and o[2][:1] == '0') >= 3
    return len(saved) >= 2 or (saved and recon)


def only_reads(rng, cfg, ops):
    for b in cfg['behav'].values():
        b['actions'] = [a for a in b['actions'] if a[0] == 'get']
    return cfg, ops


def prop_sig(cfg, ops, mode):
    # a namespace-level DISCONNECT (client packet or server.disconnect) followed by a CONNECT on the same transport
    ended = set()
    for o in ops:
        if o[0] == 'msg' and isinstance(o[2], str) and o[2][:1] == '1':
            ended.add(o[1])
        if o[0] == 'disconnect':
            ended.add('*')
        if o[0] == 'msg' and isinstance(o[2], str) and o[2][:1] == '0' and (o[1] in ended or '*' in ended):
            return 'session-survives-namespace-reconnect-on-same-transport'
    return 'c16-%s-property' % mode


def run(chk):
    k = server_hist.Knobs(n_ops=30, refuse=0.05, actions=0.5)
    k.w.update({'session': 10, 'connect': 6, 'client_disconnect': 3, 'disconnect': 2.5, 'close': 1.5, 'event': 2,
                'emit': 0.3, 'emit_cb': 0.1, 'enter': 0.3, 'leave': 0.1, 'close_room': 0.1, 'rooms': 0.1, 'junk': 0.2,
                'binary': 0.2, 'ack': 0.1})
    chk.assumptions = ['handlers read sessions (scripted get_session) and the application saves them through the API; '
                       'mutating a dict returned by get_session without saving it is not exercised (the docs say such '
                       'changes are not guaranteed to persist)']
    srvprop.run(chk, 'c16', k, 130, 1500,
                'histories over connect(ns) / save_session / get_session / session() block / namespace DISCONNECT / server '
                'disconnect / transport loss / reconnect on the same or a new transport for several clients and namespaces; '
                'the Coq checker replays a specification store keyed by (session id, namespace); non-trivial = two distinct '
                '(sid, namespace) pairs saved, or a save plus a reconnect; distinct by effect signature',
                nontrivial, prop_sig, tweak=only_reads)


def replay(chk, data):
    return srvprop.replay(chk, data, 'c16')
