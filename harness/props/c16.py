"""C16 - user sessions are private to one client connection and namespace."""
from gen import server_hist
from props import srvprop


def nontrivial(cfg, ops, results):
    saved = set((o[1], o[-1] if o[0] == 'save_session' else o[2]) for o in ops if o[0] in ('save_session', 'session_set', 'session_replace', 'session_nested', 'session_span', 'session_open'))
    recon = sum(1 for o in ops if o[0] == 'msg' and isinstance(o[2], str) and o[2][:1] == '0') >= 3
    return len(saved) >= 2 or (saved and recon)


def only_reads(rng, cfg, ops):
    for b in cfg['behav'].values():
        b['actions'] = [a for a in b['actions'] if a[0] == 'get']
    return cfg, ops


def prop_sig(cfg, ops, mode):
    # a namespace-level DISCONNECT (client packet or server.disconnect) followed by a CONNECT on the same transport
    if any(o[0] == 'session_open' for o in ops):
        return 'c16-%s-block-left-after-the-session-ended' % mode
    ended = set()
    for o in ops:
        if o[0] == 'msg' and isinstance(o[2], str) and o[2][:1] == '1':
            ended.add(o[1])
        if o[0] == 'disconnect':
            ended.add('*')
        if o[0] == 'msg' and isinstance(o[2], str) and o[2][:1] == '0' and (o[1] in ended or '*' in ended):
            return 'session-survives-namespace-reconnect-on-same-transport'
    return 'c16-%s-property' % mode


def held_open_histories():
    """A session() block that stays open while other things happen: the same transport's namespace is left and
    joined again (new session id, which saves its own session), another client saves, the other namespace of the
    transport ends; then the block is left.  Entering replaces the dict by a given one at once and leaving saves
    that same dict, so on correct code both are `save_session(sid, new)` - which is what the model runs."""
    out = []
    A, B = {'user': 'alice', 'cart': 'paid'}, {'user': 'bob'}
    c0 = lambda ns: server_hist.eio_decode(server_hist.frame(0, ns))
    d1 = lambda ns: server_hist.eio_decode(server_hist.frame(1, ns))
    for ns in ('/', '/chat'):
        for ac in (False, True):
            cfg = {'handlers': {ns: {'connect': 1}, '/b': {'connect': 1}}, 'ns_handlers': {},
                   'behav': {1: {'arity': 2, 'actions': [], 'outcome': ('ret', None)}}, 'namespaces': [ns, '/b'],
                   'always_connect': ac, 'serializer': 'default'}
            start = [('eio_connect', 'e0', {'REMOTE_ADDR': 'e0'}), ('msg', 'e0', c0(ns)),
                     ('session_open', 'S0', ns, A, 't0')]
            tail = [('session_close', 'S0', ns, A, 't0'), ('get_session', 'S1', ns), ('get_session', 'S0', ns)]
            # the client leaves the namespace and joins it again on the same transport; the new session saves first
            out.append((cfg, start + [('msg', 'e0', d1(ns)), ('msg', 'e0', c0(ns)), ('save_session', 'S1', B, ns)] + tail))
            # the same with the server ending the first session
            out.append((cfg, start + [('disconnect', 'S0', ns), ('msg', 'e0', c0(ns)), ('save_session', 'S1', B, ns)] + tail))
            # another client on another transport saves meanwhile
            out.append((cfg, start + [('eio_connect', 'e1', {'REMOTE_ADDR': 'e1'}), ('msg', 'e1', c0(ns)),
                                      ('save_session', 'S1', B, ns)] + tail))
            # the other namespace of the same transport comes and goes meanwhile
            out.append((cfg, start + [('msg', 'e0', c0('/b')), ('save_session', 'S1', B, '/b'), ('msg', 'e0', d1('/b'))] +
                        [('session_close', 'S0', ns, A, 't0'), ('get_session', 'S0', ns)]))
            # nothing in between; and a block on a session that does not exist
            out.append((cfg, start + [('session_close', 'S0', ns, A, 't0'), ('get_session', 'S0', ns),
                                      ('session_open', 'S7', ns, B, 't1'), ('session_close', 'S7', ns, B, 't1')]))
            # the transport is lost while the block is open
            out.append((cfg, start + [('close', 'e0', 'transport close'), ('session_close', 'S0', ns, A, 't0')]))
    return out


def run(chk):
    k = server_hist.Knobs(n_ops=30, refuse=0.05, actions=0.5)
    k.w.update({'session': 10, 'connect': 6, 'client_disconnect': 3, 'disconnect': 2.5, 'close': 1.5, 'event': 2,
                'emit': 0.3, 'emit_cb': 0.1, 'enter': 0.3, 'leave': 0.1, 'close_room': 0.1, 'rooms': 0.1, 'junk': 0.2,
                'binary': 0.2, 'ack': 0.1})
    chk.assumptions = ['handlers read sessions (scripted get_session) and the application saves them through the API; '
                       'mutating a dict returned by get_session without saving it is not exercised (the docs say such '
                       'changes are not guaranteed to persist)']
    srvprop.run(chk, 'c16', k, 130, 1500,
                'histories over connect(ns) / save_session / get_session / session() block / namespace DISCONNECT / server '
                'disconnect / transport loss / reconnect on the same or a new transport for several clients and namespaces; '
                'the Coq checker replays a specification store keyed by (session id, namespace); non-trivial = two distinct '
                '(sid, namespace) pairs saved, or a save plus a reconnect; distinct by effect signature',
                nontrivial, prop_sig, tweak=only_reads, extra_histories=held_open_histories())


def replay(chk, data):
    return srvprop.replay(chk, data, 'c16')
