"""Shared runner for the server-side properties: run histories on Server and AsyncServer,
print them as hcase terms, evaluate `<prop>_eval` in Coq, classify results."""
from vt import coqio
from drivers import srv
from gen import server_hist

IMPORTS_FMT = 'From VT Require Import Check.SrvCheck Check.%sCheck.'


def expand(ops):
    """Model-side view of a history: a nested redelivery is the message twice."""
    out = []
    for o in ops:
        if o[0] == 'msg_nested':
            out.append(('msg', o[1], o[2]))
            out.append(('msg', o[1], o[2]))
        elif o[0] == 'session_nested':
            out.append(('session_set', o[1], o[2], o[3], o[4]))
            out.append(('session_set', o[1], o[2], o[5], o[6]))
        elif o[0] in ('session_open', 'session_close'):
            out.append(('save_session', o[1], o[3], o[2]))
        elif o[0] == 'session_span':
            out.append(('session_set', o[1], o[2], o[3], o[4]))
            out.append(('session_set', o[1], o[2], o[5], o[6]))
            out.append(('session_set', o[1], o[2], o[7], o[8]))
        else:
            out.append(o)
    return out


def hcase_term(cfg, ops, results, dump):
    ops = expand(ops)
    ops_t = [srv.c_op(o, tbl) for o, (effs, tbl) in zip(ops, results)]
    obs_t = [coqio.clist([srv.c_eff(e) for e in effs]) for effs, _ in results]
    return '(mkH %s %s %s %s)' % (srv.c_cfg(cfg), coqio.clist(ops_t), coqio.clist(obs_t), srv.c_dump(dump))


def xhcase_term(cfg, ops, results, dump):
    ops = expand(ops)
    ops_t = [srv.c_xop(o, tbl) for o, (effs, tbl) in zip(ops, results)]
    obs_t = [coqio.clist([srv.c_eff(e) for e in effs]) for effs, _ in results]
    return '(mkXH %s %s %s %s)' % (srv.c_cfg(cfg), coqio.clist(ops_t), coqio.clist(obs_t), srv.c_dump(dump))


def effect_signature(results):
    """Coarse shape of a run used to count distinct cases."""
    sig = []
    for effs, _ in results:
        sig.append(tuple(sorted(set((e[0], e[1]) if e[0] in ('Out', 'Call', 'CbCall') else (e[0],) for e in effs))))
    return tuple(sig)


XKIND = {'c05': ('xhcase', 'From VT Require Import Check.SrvCheck Check.C05XCheck.', 'c05x_eval')}


def case_kind(name):
    """(Coq case type, imports, eval function, term printer) for a property's histories."""
    if name in XKIND:
        t, imp, fn = XKIND[name][:3]
        # a property module may register its own case type with its own printer (4th component)
        return t, imp, fn, (XKIND[name][3] if len(XKIND[name]) > 3 else xhcase_term)
    return 'hcase', IMPORTS_FMT % name.upper(), name + '_eval', hcase_term


def run_histories(chk, name, histories, modes=('sync', 'async'), nontrivial=None, shard=60):
    """histories: list of (cfg, ops).  Each is executed on every mode.  Returns list of
    (index, mode, code) for non-zero codes plus the case terms."""
    cases, meta = [], []
    for i, (cfg, ops) in enumerate(histories):
        for mode in modes:
            coro = (i % 2 == 0)
            try:
                results, dump = srv.run_history(cfg, ops, mode, coro)
                term = case_kind(name)[3](cfg, ops, results, dump)
            except Exception as e:
                chk.broken_obligation('driver error on history %d (%s): %r' % (i, mode, e))
                continue
            cases.append(term)
            meta.append((i, mode, results))
            key = None
            if nontrivial is None or nontrivial(cfg, ops, results):
                key = effect_signature(results)
            chk.count(1, key, {'mode': mode, 'ops': [repr(o)[:90] for o in ops[:8]]} if i < 2 else None)
            for o in ops:
                chk.dist('op ' + o[0])
    ctype, imports, fn, _ = case_kind(name)
    codes, errors = coqio.eval_cases(name, imports, '', ctype, cases, fn, shard=shard)
    chk.traces_validated += len(cases)
    for e in errors:
        chk.broken_obligation('case evaluation failed: ' + e)
    bad = [(meta[idx][0], meta[idx][1], code, cases[idx]) for idx, code in sorted(codes.items())]
    return bad


def load_corpus(name):
    """Minimised failing histories of earlier (seeded / pre-fix) runs: they are run first."""
    import ast
    import glob
    import json
    import os
    from vt import common
    out = []
    for f in sorted(glob.glob(os.path.join(common.CORPUS, name.upper(), '*.json'))):
        try:
            cfg, ops = ast.literal_eval(json.load(open(f))['py'])
        except Exception:
            continue
        if name not in XKIND and any(o[0] == 'msg_sd' for o in ops):
            continue
        out.append((cfg, [tuple(o) for o in ops]))
    return out


def shrink_history(name, cfg, ops, mode, want_prop, budget=12):
    """Delta-debugging with every round's candidates evaluated in ONE coqc call.
    `want_prop`: keep cases whose code has bit 2 (property) if True, else any non-zero code."""
    cur = list(ops)
    chunk = max(1, len(cur) // 2)
    rounds = 0
    while rounds < budget and len(cur) > 1:
        rounds += 1
        cands = []
        for i in range(0, len(cur), chunk):
            cand = cur[:i] + cur[i + chunk:]
            if cand:
                cands.append(cand)
        terms, ok_cands = [], []
        for cand in cands:
            try:
                results, dump = srv.run_history(cfg, cand, mode)
                terms.append(case_kind(name)[3](cfg, cand, results, dump))
                ok_cands.append(cand)
            except Exception:
                pass
        if not terms:
            break
        ctype, imports, fn, _ = case_kind(name)
        codes, errors = coqio.eval_cases(name + '_shr', imports, '', ctype, terms, fn, shard=len(terms))
        if errors:
            break
        hit = None
        for j, cand in enumerate(ok_cands):
            c = codes.get(j, 0)
            if (c & 2) if want_prop else c:
                hit = cand
                break
        if hit is not None:
            cur = hit
            chunk = max(1, min(chunk, len(cur) // 2))
        elif chunk == 1:
            break
        else:
            chunk = max(1, chunk // 2)
    return cur


def eval_one(name, cfg, ops, mode, coro=False):
    results, dump = srv.run_history(cfg, ops, mode, coro)
    ctype, imports, fn, printer = case_kind(name)
    term = printer(cfg, ops, results, dump)
    codes, errors = coqio.eval_cases(name + '_shr', imports, '', ctype, [term], fn)
    if errors:
        raise RuntimeError(errors[0])
    return codes.get(0, 0), term
