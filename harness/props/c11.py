"""C11 - no residual server state once a client is gone."""
from gen import server_hist
from props import srvprop
from vt import coqio
from props import srvcommon


def close_all(rng, cfg, ops):
    """End every transport (C11 is about the state AFTER clients have gone); sometimes leave one."""
    live = []
    for o in ops:
        if o[0] == 'eio_connect':
            live.append(o[1])
        elif o[0] == 'close' and o[1] in live:
            live.remove(o[1])
    keep = live[:1] if (live and rng.random() < 0.3) else []
    ops = list(ops)
    for e in live:
        if e not in keep:
            ops.append(('close', e, rng.choice(server_hist.REASONS)))
    return cfg, ops


def nontrivial(cfg, ops, results):
    return any(o[0] == 'msg' and isinstance(o[2], str) and o[2][:1] in '56' for o in ops) or \
        any(o[0] == 'emit' and o[7] is not None for o in ops) or \
        any(b['outcome'][0] == 'raise' for b in cfg['behav'].values())


def prop_sig(cfg, ops, mode):
    """Structural class: which component of the state still mentions a departed client
    (same classification as c11_kinds in Check/C11Check.v, computed on the implementation dump)."""
    from drivers import srv
    results, d = srv.run_history(cfg, ops, mode)
    live = set(d['live'])
    members = [(s, e) for ns, rm in d['rooms'] for room, items in rm for s, e in items]
    live_sids = set(s for s, e in members if e in live)
    kinds = []
    if any(e not in live for s, e in members):
        kinds.append('rooms')
    if any(s not in live_sids for ns, l in d['pending'] for s in l):
        kinds.append('pending')
    if any(sid not in live_sids for sid, _, _ in d['callbacks']):
        kinds.append('callbacks')
    if any(e not in live for e in d['environ']):
        kinds.append('environ')
    if any(e not in live for e in d['binpkt']):
        kinds.append('binary-packet')
    if any(e not in live for e, _ in d['sessions']):
        kinds.append('session')
    raised = any(e[0] == 'Call' and cfg['behav'][e[1]]['outcome'][0] == 'raise' for effs, _ in results for e in effs)
    if kinds == ['binary-packet']:
        return 'partial-binary-packet-survives-transport-end'
    if raised and 'binary-packet' not in kinds and kinds:
        return 'raising-handler-leaves-' + '-'.join(kinds)
    if not kinds:
        return 'not-fresh-after-last-client'
    return 'residue-' + '-'.join(kinds)


def run(chk):
    k = server_hist.Knobs(n_ops=26, refuse=0.2, actions=0.2, raise_p=0.25 if chk.rng.random() < 2 else 0)
    k.w.update({'binary': 2.5, 'emit_cb': 2.5, 'junk': 1.0, 'close': 2.0, 'connect': 6, 'event': 3})
    chk.assumptions = ['application misuse of the API from inside handlers (calls that themselves raise) is generated and '
                       'modelled but not counted against C11 unless a client state component survives',
                       'the state vector dumped (rooms, pending_disconnect, callbacks, environ, _binary_packet, engine.io '
                       'sessions) is all the per-client state the server holds: supported by the object-graph measurement']
    srvprop.run(chk, 'c11', k, 130, 1500,
                'client histories (connects to several namespaces, room changes, events, emits with callbacks left unanswered, '
                'refused connections, partial binary packets, malformed packets) with handlers raising at scripted invocations, '
                'ended by transport loss; the implementation state dump after the history is judged by the Coq checker '
                'c11_final; non-trivial = binary packet, outstanding callback or raising handler involved; distinct by effect signature',
                nontrivial, prop_sig, tweak=close_all)
    if not chk.broken:
        graph_growth(chk)


def graph_growth(chk):
    """Supporting measurement: objects reachable from the server after n and 2n client generations."""
    import gc
    import logging
    import types
    from drivers import srv

    def reach(obj):
        seen, stack = set(), [obj]
        while stack:
            x = stack.pop()
            if id(x) in seen or isinstance(x, (type, types.ModuleType, types.FunctionType, types.BuiltinFunctionType,
                                               types.MethodType, types.CodeType, types.FrameType, logging.Logger,
                                               logging.Handler, logging.Manager)):
                continue
            seen.add(id(x))
            stack.extend(gc.get_referents(x))
        return len(seen)
    import asyncio

    async def gens(n):
        cfg = {'handlers': {'/': {'connect': 1, 'ev': 2, 'disconnect': 3}}, 'ns_handlers': {},
               'behav': {1: {'arity': 2, 'actions': [('enter', 'lobby')], 'outcome': ('ret', None)},
                         2: {'arity': None, 'actions': [], 'outcome': ('ret', 'x')},
                         3: {'arity': 2, 'actions': [], 'outcome': ('ret', None)}},
               'namespaces': ['/'], 'always_connect': False, 'serializer': 'default'}
        d = srv.ServerDriver(cfg, 'sync')
        sizes = []
        for g in range(2 * n):
            e = 'g%d' % g
            await d.op(('eio_connect', e, {'REMOTE_ADDR': e}))
            await d.op(('msg', e, '0'))
            await d.op(('msg', e, '2["ev",1]'))
            await d.op(('emit', 'x', 1, 'S%d' % g, None, None, None, 1000 + g))
            await d.op(('close', e, 'transport close'))
            d.sockets.pop(e, None)
            if g + 1 in (n, 2 * n):
                gc.collect()
                sizes.append(reach(d.sio))
        return sizes
    n = 400 if chk.thorough else 50
    a, b = asyncio.run(gens(n))
    chk.extra['object_graph'] = {'generations': [n, 2 * n], 'reachable_objects': [a, b]}
    if b > a + 20:
        chk.violation('object-graph-grows', 'objects reachable from the server grow with departed clients: %d -> %d' % (a, b),
                      {'generations': [n, 2 * n], 'sizes': [a, b]})


def replay(chk, data):
    return srvprop.replay(chk, data, 'c11')
