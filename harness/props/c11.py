"""C11 - no residual server state once a client is gone."""
from gen import server_hist
from props import srvprop
from vt import coqio
from props import srvcommon


def close_all(rng, cfg, ops):
    """End every transport (C11 is about the state AFTER clients have gone); sometimes leave one."""
    live = []
    for o in ops:
        if o[0] == 'eio_connect':
            live.append(o[1])
        elif o[0] == 'close' and o[1] in live:
            live.remove(o[1])
    keep = live[:1] if (live and rng.random() < 0.3) else []
    ops = list(ops)
    for e in live:
        if e not in keep:
            ops.append(('close', e, rng.choice(server_hist.REASONS)))
    return cfg, ops


def nontrivial(cfg, ops, results):
    return any(o[0] == 'msg' and isinstance(o[2], str) and o[2][:1] in '56' for o in ops) or \
        any(o[0] == 'emit' and o[7] is not None for o in ops) or \
        any(b['outcome'][0] == 'raise' for b in cfg['behav'].values())


def prop_sig(cfg, ops, mode):
    """Structural class: which component of the state still mentions a departed client
    (same classification as c11_kinds in Check/C11Check.v, computed on the implementation dump)."""
    from drivers import srv
    results, d = srv.run_history(cfg, ops, mode)
    live = set(d['live'])
    members = [(s, e) for ns, rm in d['rooms'] for room, items in rm for s, e in items]
    live_sids = set(s for s, e in members if e in live)
    kinds = []
    if any(e not in live for s, e in members):
        kinds.append('rooms')
    if any(s not in live_sids for ns, l in d['pending'] for s in l):
        kinds.append('pending')
    if any(sid not in live_sids for sid, _, _ in d['callbacks']):
        kinds.append('callbacks')
    if any(e not in live for e in d['environ']):
        kinds.append('environ')
    if any(e not in live for e in d['binpkt']):
        kinds.append('binary-packet')
    if any(e not in live for e, _ in d['sessions']):
        kinds.append('session')
    raised = any(e[0] == 'Call' and cfg['behav'][e[1]]['outcome'][0] == 'raise' for effs, _ in results for e in effs)
    if kinds == ['binary-packet']:
        return 'partial-binary-packet-survives-transport-end'
    if raised and 'binary-packet' not in kinds and kinds:
        return 'raising-handler-leaves-' + '-'.join(kinds)
    if not kinds:
        return 'not-fresh-after-last-client'
    return 'residue-' + '-'.join(kinds)


def run(chk):
    k = server_hist.Knobs(n_ops=26, refuse=0.2, actions=0.2, raise_p=0.25 if chk.rng.random() < 2 else 0)
    k.w.update({'binary': 2.5, 'emit_cb': 2.5, 'junk': 1.0, 'close': 2.0, 'connect': 6, 'event': 3})
    chk.assumptions = ['application misuse of the API from inside handlers (calls that themselves raise) is generated and '
                       'modelled but not counted against C11 unless a client state component survives',
                       'the state vector dumped (rooms, pending_disconnect, callbacks, environ, _binary_packet, engine.io '
                       'sessions) is all the per-client state the server holds: supported by the object-graph measurement']
    srvprop.run(chk, 'c11', k, 130, 1500,
                'client histories (connects to several namespaces, room changes, events, emits with callbacks left unanswered, '
                'refused connections, partial binary packets, malformed packets) with handlers raising at scripted invocations, '
                'ended by transport loss; the implementation state dump after the history is judged by the Coq checker '
                'c11_final; non-trivial = binary packet, outstanding callback or raising handler involved; distinct by effect signature',
                nontrivial, prop_sig, tweak=close_all)
    broken_before = bool(chk.broken)
    overlap(chk)        # also when the sequential part disagrees with the model: the two parts are independent
    if not broken_before and not chk.broken:
        graph_growth(chk)


def graph_growth(chk):
    """Supporting measurement: objects reachable from the server after n and 2n client generations."""
    import gc
    import logging
    import types
    from drivers import srv

    def reach(obj):
        seen, stack = set(), [obj]
        while stack:
            x = stack.pop()
            if id(x) in seen or isinstance(x, (type, types.ModuleType, types.FunctionType, types.BuiltinFunctionType,
                                               types.MethodType, types.CodeType, types.FrameType, logging.Logger,
                                               logging.Handler, logging.Manager)):
                continue
            seen.add(id(x))
            stack.extend(gc.get_referents(x))
        return len(seen)
    import asyncio

    async def gens(n):
        cfg = {'handlers': {'/': {'connect': 1, 'ev': 2, 'disconnect': 3}}, 'ns_handlers': {},
               'behav': {1: {'arity': 2, 'actions': [('enter', 'lobby')], 'outcome': ('ret', None)},
                         2: {'arity': None, 'actions': [], 'outcome': ('ret', 'x')},
                         3: {'arity': 2, 'actions': [], 'outcome': ('ret', None)}},
               'namespaces': ['/'], 'always_connect': False, 'serializer': 'default'}
        d = srv.ServerDriver(cfg, 'sync')
        sizes = []
        for g in range(2 * n):
            e = 'g%d' % g
            await d.op(('eio_connect', e, {'REMOTE_ADDR': e}))
            await d.op(('msg', e, '0'))
            await d.op(('msg', e, '2["ev",1]'))
            await d.op(('emit', 'x', 1, 'S%d' % g, None, None, None, 1000 + g))
            await d.op(('close', e, 'transport close'))
            d.sockets.pop(e, None)
            if g + 1 in (n, 2 * n):
                gc.collect()
                sizes.append(reach(d.sio))
        return sizes
    n = 400 if chk.thorough else 50
    a, b = asyncio.run(gens(n))
    chk.extra['object_graph'] = {'generations': [n, 2 * n], 'reachable_objects': [a, b]}
    if b > a + 20:
        chk.violation('object-graph-grows', 'objects reachable from the server grow with departed clients: %d -> %d' % (a, b),
                      {'generations': [n, 2 * n], 'sizes': [a, b]})


# ---- histories with overlapping handler tasks (async_handlers=True, the library default) ----
Q_IMPORTS = 'From VT Require Import Check.SrvCheck Check.C11Check.'
Q_KINDS = {1: 'rooms', 2: 'pending', 3: 'callbacks', 4: 'environ', 5: 'binary-packet', 6: 'session', 7: 'not-fresh',
           8: 'retained-tasks'}


def overlap_knobs():
    k = server_hist.Knobs(n_ops=22, refuse=0.15, actions=0.45, raise_p=0.12, max_clients=4)
    k.w.update({'connect': 6, 'event': 9, 'close': 2.5, 'client_disconnect': 2.5, 'emit_cb': 1.5, 'emit': 2, 'binary': 1.0,
                'junk': 0.3, 'ack': 1.0, 'disconnect': 1.0, 'session': 0.8, 'rooms': 0.3, 'close_room': 0.5})
    return k


def overlap_history(rng, k=None):
    """A server history whose handlers additionally emit WITH a callback (to their own sid, to rooms) and
    yield to the event loop; every transport is ended at the end."""
    cfg, ops = server_hist.gen_history(rng, k or overlap_knobs())
    cfg, ops = close_all(rng, cfg, ops)
    cb = 1000
    for hid, b in cfg['behav'].items():
        if rng.random() < 0.5:
            acts = list(b['actions'])
            for _ in range(rng.randrange(1, 3)):
                r = rng.random()
                cb += 1
                if r < 0.45:
                    a = ('emit_self_cb', 'confirm', rng.choice([None, 'x', {'ok': True}]), cb)
                elif r < 0.65:
                    a = ('emit_room_cb', 'poll', 'q', rng.choice(server_hist.ROOMS[:3] + [None]), rng.random() < 0.5, cb)
                else:
                    a = ('yield', rng.randrange(1, 4))
                acts.insert(rng.randrange(len(acts) + 1), a)
            b['actions'] = acts
    return cfg, ops


def directed_overlap():
    """Four small histories under EVERY schedule of their last two operations (await / task x 0..2 turns):
    an event whose handler emits to its own sid with a callback, followed at once by the transport close; the same with an event handler that RAISES;
    a CONNECT (always_connect) whose handler refuses after yielding, followed by the close, alone and with a second client that
    keeps the namespace alive (the disconnect handler emits, so the close suspends too)."""
    def behav(arity, actions=(), outcome=('ret', None)):
        return {'arity': arity, 'actions': list(actions), 'outcome': outcome}
    base = {'ns_handlers': {}, 'namespaces': ['/'], 'serializer': 'default'}
    ack = dict(base, always_connect=False, handlers={'/': {'connect': 1, 'ev': 2, 'disconnect': 3}},
               behav={1: behav(2), 2: behav(None, [('emit_self_cb', 'confirm', {'ok': True}, 1001)]), 3: behav(2)})
    ref = dict(base, always_connect=True, handlers={'/': {'connect': 1, 'disconnect': 3}},
               behav={1: behav(2, [('yield', 2)], ('refuse', ['no'])), 3: behav(2, [('emit_room', 'bye', 'x', None, False)])})
    boom = dict(ack, behav={1: behav(2), 2: behav(None, [('yield', 1)], ('raise', 'ValueError')), 3: behav(2)})
    ref2 = dict(ref, behav={1: behav(2, [('yield', 1)], ('ret', False)), 3: ref['behav'][3]})
    con = ('eio_connect', 'e0', {'REMOTE_ADDR': 'e0'})
    hs = [(ack, [con, ('msg', 'e0', '0'), ('msg', 'e0', '2["ev"]'), ('close', 'e0', 'transport close')]),
          (boom, [con, ('msg', 'e0', '0'), ('msg', 'e0', '2["ev",{"secret":"payload"}]'), ('close', 'e0', 'transport close')]),
          (ref, [con, ('msg', 'e0', '0'), ('close', 'e0', 'ping timeout')]),
          (ref2, [con, ('msg', 'e0', '0'), ('close', 'e0', 'transport error')])]
    slots = [(h, y) for h in ('await', 'task') for y in (0, 1, 2)]
    out = []
    for cfg, ops in hs:
        for h1, y1 in slots:
            for h2, y2 in slots:
                sched = [('await', 0, False, [])] * (len(ops) - 2) + [(h1, y1, False, [0] * y1), (h2, y2, False, [0] * y2)]
                for mode in ('async', 'sync'):
                    out.append((cfg, ops, mode, sched))
    return out


def q_sig(mode, code, cfg=None):
    """Structural class from the kinds of residue the Coq checker reports (c11_kinds via c11q_eval)."""
    kinds = [Q_KINDS[i] for i in sorted(Q_KINDS) if code >> (i + 1) & 1]
    if kinds in (['pending'], ['pending', 'not-fresh']) and cfg is not None and cfg.get('always_connect'):
        tables = list(cfg.get('handlers', {}).values()) + list(cfg.get('ns_handlers', {}).values())
        outs = [cfg['behav'][t['connect']]['outcome'] for t in tables if 'connect' in t]
        if any(o[0] == 'refuse' or o == ('ret', False) for o in outs):
            # connect handler still running when the transport ends, then refuses: pre_disconnect() appends
            # the sid and fails on the vanished namespace, basic_disconnect() returns early
            return 'always-connect-refusal-after-transport-end-leaves-pending'
    return 'overlapping-handlers-%s-residue-%s' % (mode, '-'.join(k for k in kinds if k != 'not-fresh') or 'not-fresh')


def q_eval(tag, runs, overlaps=None):
    """runs: list of (cfg, ops, mode, sched).  Returns ({index: code}, errors, n evaluated)."""
    from drivers import async_tasks
    terms, idx, errors = [], [], []
    for j, (cfg, ops, mode, sched) in enumerate(runs):
        try:
            dumps, n_over = async_tasks.run_overlap(cfg, ops, mode, sched)
            terms.append(async_tasks.qcase_term(dumps))
            idx.append(j)
            if overlaps is not None:
                overlaps[j] = n_over
        except Exception as e:
            errors.append('driver error on overlap history %d (%s): %r' % (j, mode, e))
    codes, errs = coqio.eval_cases(tag, Q_IMPORTS, '', 'qcase', terms, 'c11q_eval', shard=50)
    return {idx[i]: c for i, c in codes.items()}, errors + ['case evaluation failed: ' + e for e in errs], len(terms)


def q_shrink(cfg, ops, mode, sched, sig, budget=10):
    """Delta debugging over (operation, schedule entry) pairs; every round is one coqc call."""
    cur = list(zip(ops, sched))
    chunk = max(1, len(cur) // 2)
    for _ in range(budget):
        if len(cur) <= 1:
            break
        cands = [cur[:i] + cur[i + chunk:] for i in range(0, len(cur), chunk)]
        cands = [c for c in cands if c]
        codes, errors, _n = q_eval('c11q_shr', [(cfg, [o for o, _ in c], mode, [s for _, s in c]) for c in cands])
        if errors:
            break
        hit = next((cands[j] for j in sorted(codes) if q_sig(mode, codes[j], cfg) == sig), None)
        if hit is not None:
            cur = hit
            chunk = max(1, min(chunk, len(cur) // 2))
        elif chunk == 1:
            break
        else:
            chunk = max(1, chunk // 2)
    return [o for o, _ in cur], [s for _, s in cur]


def overlap(chk):
    from drivers import async_tasks
    rng = chk.rng.sub('overlap')
    n = 2500 if chk.thorough else 300
    runs = directed_overlap()
    for i in range(n):
        cfg, ops = overlap_history(rng)
        sched = async_tasks.gen_schedule(rng, ops)
        for mode in ('async', 'sync'):
            runs.append((cfg, ops, mode, sched))
        if i % 3 == 0:       # the same history under a second schedule (asyncio)
            runs.append((cfg, ops, 'async', async_tasks.gen_schedule(rng, ops)))
    overlaps = {}
    codes, errors, n_eval = q_eval('c11q', runs, overlaps)
    for e in errors:
        chk.broken_obligation(e)
    chk.traces_validated += n_eval
    chk.rule += ('; PLUS histories run with async_handlers=True (handler tasks / deferred handler calls overlapping the following '
                 'operations, drivers/async_tasks.py), judged by c11q_eval on the quiescent dumps only; non-trivial there = at '
                 'least one operation began while a handler body was suspended or queued; distinct by operation kinds and schedule')
    for j, (cfg, ops, mode, sched) in enumerate(runs):
        key = None
        if overlaps.get(j):
            key = ('overlap', mode, tuple(o[0] for o in ops), tuple((h, y) for h, y, _, _ in sched))
        chk.count(1, key, None)
        chk.dist('overlap %s %s' % (mode, 'overlapping' if overlaps.get(j) else 'no overlap'))
    chk.extra['overlap_histories'] = {'runs': len(runs), 'evaluated': n_eval}
    seen = {}
    for j in sorted(codes):
        sig = q_sig(runs[j][2], codes[j], runs[j][0])
        if sig not in seen and len(seen) < 4:
            seen[sig] = j
    for sig, j in seen.items():
        cfg, ops, mode, sched = runs[j]
        try:
            ops_s, sched_s = q_shrink(cfg, ops, mode, sched, sig)
        except Exception:
            ops_s, sched_s = ops, sched
        chk.violation(sig, 'with async_handlers=True (handler tasks overlapping the following operations) the %s server keeps '
                      'state (tables, or finished handler tasks) for a departed client at a quiescent point (Coq checker c11q_eval on the '
                      'quiescent dumps)' % mode,
                      {'kind': 'overlap', 'py': repr((cfg, ops_s, mode, sched_s))})


def replay(chk, data):
    if data['replay'].get('kind') == 'overlap':
        import ast
        from drivers import async_tasks
        cfg, ops, mode, sched = ast.literal_eval(data['replay']['py'])
        codes, errors, _n = q_eval('c11q_replay', [(cfg, ops, mode, sched)])
        print('checker code (0 = fine; 2 + residue kinds):', codes.get(0, 0), errors)
        for o, s in zip(ops, sched):
            print(o, s)
        for d in async_tasks.run_overlap(cfg, ops, mode, sched)[0]:
            print('quiescent dump:', d)
        if codes.get(0, 0):
            print('signature:', q_sig(mode, codes[0], cfg))
        return 0 if not codes and not errors else 1
    return srvprop.replay(chk, data, 'c11')
