"""C18 - admin instrumentation: gated by credentials, invisible to the application.

Tie: TRANSLATOR (harness/translator/admin2coq.py -> coq/Admin/Gen_admin.v, regenerated on every
run; the theorems of Props/C18.v are re-proved against the regenerated text) plus runs of the REAL
InstrumentedServer / InstrumentedAsyncServer (drivers/admin_drv.py), judged inside Coq
(Admin/AdminGenCheck.v `c18_eval`; Check/C18Check.v `c18_eval_spec` when the translator failed closed):

  (a) TV / IV  translator validation: the generated admin_connect / instrument() evaluated in Coq
      against the real methods called directly (sampled payloads x configurations x both classes);
  (b) CN       auth payload mutations through the real connect path (CONNECT packet on the admin
      namespace): CONNECT vs CONNECT_ERROR, membership afterwards;
  (c) RO       an admin client sends emit / join / leave / _disconnect in the four modes;
  (d) TR       application histories (gen/server_hist.py) side by side on a plain and on an
      instrumented server, with and without admin clients: projection on application transports;
  (e) LK       an admin CONNECT whose coroutine predicate is pending while application traffic flows.
"""
import asyncio
import copy
import os
import warnings

from vt import common, coqio
from vt.coqio import pv, cstr, clist, cbool, Obj
from drivers import admin_drv, srv
from drivers.admin_drv import ABSENT
from gen import server_hist

IMPORTS_GEN = 'From VT Require Import Admin.AdminGenCheck.'
IMPORTS_SPEC = 'From VT Require Import Check.C18Check.'

SIG_RAISES = 'predicate-raises-admin-membership-kept'
SIG_ACALL = 'async-callable-predicate-never-awaited'
SIG_EMPTY = 'emit-empty-room-list-raises-when-instrumented'
SIG_PENDING = 'pending-auth-receives-admin-broadcasts'
SIG_BINARY = 'binary-event-dropped-while-admin-connected'

MIN_CFG = {'handlers': {'/': {'ev': 1}}, 'ns_handlers': {}, 'namespaces': None, 'always_connect': False,
           'serializer': 'default', 'behav': {1: {'arity': None, 'actions': [], 'outcome': ('ret', None)}}}

CREDS = [
    {'username': 'admin', 'password': 'secret'},
    {'token': 'T0k3n', 'level': 1},
    {'user': {'name': 'root', 'roles': ['a', 'b']}, 'pin': 1234},
    {'k': True},
    {'k': None, 'n': 0},
    {'id': 0},
    {'name': 'é-ü', 'pw': ''},
]
MODES = [('development', False), ('development', True), ('production', False), ('production', True)]


# --------------------------------------------------------------------------------------
# payload mutations
# --------------------------------------------------------------------------------------
def confuse(v, rng):
    """type-confused variants of a scalar (1 vs True vs "1", ...)."""
    if v is True:
        return rng.choice([1, 'True', 'true', '1', 1.5, [True]])
    if v is False:
        return rng.choice([0, '', None, 'False', []])
    if v is None:
        return rng.choice([False, 0, '', 'None', 'null', []])
    if isinstance(v, int):
        opts = [str(v), v + 1, -v if v else 1, [v], v + 0.5]
        if v == 1:
            opts.append(True)
        if v == 0:
            opts += [False, None, '']
        return rng.choice(opts)
    if isinstance(v, str):
        return rng.choice([v.upper() if v.upper() != v else v.lower(), v + ' ', ' ' + v, [v], v[:-1], v.encode().hex(),
                           {'$ne': None}, True, None, 0])
    if isinstance(v, list):
        return rng.choice([list(reversed(v)) if len(v) > 1 and v != list(reversed(v)) else v + [v[0] if v else 0],
                           v[:-1], v + v[:1], {str(i): x for i, x in enumerate(v)}, None])
    if isinstance(v, dict):
        return mutate_dict(v, rng)
    return None


def mutate_dict(c, rng, kind=None):
    c = copy.deepcopy(c)
    keys = list(c)
    kind = kind or rng.choice(['subset', 'superset', 'confuse', 'confuse', 'nested', 'swap', 'case', 'empty'])
    if kind == 'subset' and keys:
        del c[rng.choice(keys)]
        return c
    if kind == 'superset':
        c[rng.choice(['extra', 'admin', 'x', '__proto__'])] = rng.choice([1, True, None, 'y'])
        return c
    if kind in ('confuse', 'nested') and keys:
        k = rng.choice(keys)
        c[k] = confuse(c[k], rng)
        return c
    if kind == 'swap' and len(keys) >= 2:
        a, b = rng.sample(keys, 2)
        c[a], c[b] = c[b], c[a]
        return c
    if kind == 'case' and keys:
        k = rng.choice(keys)
        c[k.upper() if k.upper() != k else k + '_'] = c.pop(k)
        return c
    return {}


def permute(c, rng):
    items = list(c.items())
    if len(items) > 1:
        items = items[1:] + items[:1] if rng.random() < 0.5 else list(reversed(items))
    out = {}
    for k, v in items:
        out[k] = permute(v, rng) if isinstance(v, dict) else copy.deepcopy(v)
    return out


def gen_payload(rng, creds, direct):
    """(label, payload); payload ABSENT = no data in the CONNECT packet."""
    c = rng.choice(creds) if creds else rng.choice(CREDS)
    r = rng.random()
    if r < 0.16:
        return 'exact', copy.deepcopy(c)
    if r < 0.28:
        return 'permutation', permute(c, rng)
    if r < 0.34:
        return 'absent', ABSENT
    if r < 0.40:
        return 'none-or-empty', rng.choice([None, {}, [], '', 0, False])
    if r < 0.52:
        lab = 'non-dict'
        opts = ['admin', 1, True, [copy.deepcopy(c)], [list(x) for x in c.items()], list(c.values()), list(c),
                'username=admin', 1.5, [[]]]
        if direct:
            opts += [tuple(c.items()), b'admin', (copy.deepcopy(c),)]
        return lab, rng.choice(opts)
    if r < 0.60:
        other = rng.choice(CREDS)
        return 'other-credentials', copy.deepcopy(other)
    if r < 0.66 and creds and len(creds) > 1:
        m = {}
        for x in creds[:2]:
            m.update(copy.deepcopy(x))
        return 'merged', m
    if r < 0.72:
        return 'wrapped', rng.choice([{'auth': copy.deepcopy(c)}, {'0': copy.deepcopy(c)}, {'credentials': [copy.deepcopy(c)]}])
    kind = rng.choice(['subset', 'superset', 'confuse', 'confuse', 'nested', 'swap', 'case'])
    return kind, mutate_dict(c, rng, kind)


def no_integral_float(v):
    """py_eq of Base/PyVal.v compares floats only with floats (generators keep them apart)."""
    if isinstance(v, float):
        return v != int(v)
    if isinstance(v, dict):
        return all(isinstance(k, str) and no_integral_float(x) for k, x in v.items())
    if isinstance(v, (list, tuple)):
        return all(no_integral_float(x) for x in v)
    return True


# --------------------------------------------------------------------------------------
# configured predicates
# --------------------------------------------------------------------------------------
EXC = {'KeyError': KeyError, 'ValueError': ValueError, 'TypeError': TypeError, 'RuntimeError': RuntimeError,
       'ZeroDivisionError': ZeroDivisionError}
CONST_RESULTS = [True, False, 1, 0, 'yes', '', None, [], [0], {}, {'ok': False}, 2.5]
CORO = Obj(4294967295)      # Admin/AdminRuntime.v coroutine_object


class Pred:
    """A configured predicate built from a literal description `spec` (so that a replay can rebuild
    it), with a recorder of what it returned / raised for the last call.
    spec = {'kind': eq|const|key|get|raise, 'shape': function|coroutine|async-callable, 'cred': dict,
            'value': const result, 'exc': exception name}"""

    def __init__(self, spec, obj_id):
        self.spec = spec
        self.kind = spec['kind']
        self.shape = spec['shape']
        self.is_coro = self.shape == 'coroutine'
        self.obj = Obj(obj_id)
        self.last = None
        kind, cred = self.kind, spec.get('cred')
        if kind == 'eq':
            self.body = lambda a: a == cred
        elif kind == 'const':
            self.body = lambda a: copy.deepcopy(spec['value'])
        elif kind == 'key':
            k0 = list(cred)[0]
            self.body = lambda a: a[k0] == cred[k0]             # KeyError / TypeError on odd payloads
        elif kind == 'get':
            k0 = list(cred)[0]
            self.body = lambda a: isinstance(a, dict) and a.get(k0)
        else:
            exc = EXC[spec['exc']]

            def body(a):
                raise exc('scripted')
            self.body = body
        p = self
        if self.shape == 'async-callable':
            class AsyncCallable:
                async def __call__(self, auth):
                    return p._run(auth)
            self.fn = AsyncCallable()
        elif self.shape == 'function-returning-coroutine':
            async def inner(auth):
                return p._run(auth)
            self.fn = lambda auth: inner(auth)
        elif self.is_coro:
            async def predicate(auth):
                return p._run(auth)
            self.fn = predicate
        else:
            def predicate(auth):
                return p._run(auth)
            self.fn = predicate

    def _run(self, auth):
        try:
            r = self.body(auth)
        except BaseException as e:
            self.last = (False, coqio.exn_name(e))
            raise
        self.last = (True, r)
        return r

    @property
    def returns_coroutine(self):
        return self.shape != 'function'

    def oracle_fields(self, eff):
        """(call, awaited) for the Coq case: what CALLING the predicate gives, and - when that is a
        coroutine object - what awaiting it gives (what it WOULD give if the server never awaited it)."""
        if self.returns_coroutine:
            return (True, CORO), (self.last if self.last is not None else self.intended(eff))
        return (self.last if self.last is not None else self.intended(eff)), None

    def intended(self, auth):
        """what the predicate answers for this payload (used when the server never ran / awaited it)."""
        try:
            return True, self.body(copy.deepcopy(auth))
        except BaseException as e:
            return False, coqio.exn_name(e)


def gen_pred(rng, allow_coro, cred, obj_id, kinds=None, shape=None):
    kind = rng.choice(kinds or ['eq', 'eq', 'const', 'const', 'key', 'get', 'raise'])
    spec = {'kind': kind, 'cred': cred,
            'shape': shape or (rng.choice(['coroutine', 'coroutine', 'coroutine', 'async-callable',
                                           'function-returning-coroutine'])
                               if allow_coro and rng.random() < 0.5 else 'function')}
    if kind == 'const':
        spec['value'] = rng.choice(CONST_RESULTS)
    if kind == 'raise':
        spec['exc'] = rng.choice(sorted(EXC))
    return Pred(spec, obj_id)


def build_auth(desc, obj_id=7):
    """(real auth value, printed auth value, Pred or None) from the literal description stored in replays."""
    if desc['kind'] == 'predicate':
        p = Pred(desc['spec'], obj_id)
        return p.fn, p.obj, p
    return copy.deepcopy(desc['value']), copy.deepcopy(desc['value']), None


def gen_auth_config(rng, is_async, obj_id, with_out_of_domain=True):
    """(label, literal description, creds list for the payload generator)."""
    r = rng.random()
    if r < 0.30:
        c = copy.deepcopy(rng.choice(CREDS))
        return 'dict', {'kind': 'value', 'value': c}, [c]
    if r < 0.55:
        n = rng.randrange(1, 4)
        cs = [copy.deepcopy(x) for x in rng.sample(CREDS, n)]
        return 'list', {'kind': 'value', 'value': cs}, cs
    if r < 0.85:
        c = copy.deepcopy(rng.choice(CREDS))
        p = gen_pred(rng, True, c, obj_id)
        return 'predicate-' + p.shape, {'kind': 'predicate', 'spec': p.spec}, [c]
    if r < 0.93 or not with_out_of_domain:
        return 'False', {'kind': 'value', 'value': False}, []
    v = rng.choice([{}, [], 0, ''])
    return 'falsy-not-False', {'kind': 'value', 'value': v}, []


def c_acfg(auth_printed, read_only, mode, ns):
    return '(mkACfg %s %s %s %s)' % (pv(auth_printed), pv(read_only), pv(mode), pv(ns))


def c_awaited(x):
    return 'None' if x is None else '(Some %s)' % c_res(*x)


def c_res(ok, v):
    if ok:
        try:
            return '(Ok %s)' % pv(v)
        except TypeError:
            return '(Ok (PObj 4000000000%N))'
    return '(Err %s)' % v


# --------------------------------------------------------------------------------------
# (a) translator validation
# --------------------------------------------------------------------------------------
def direct_call(d, payload):
    """inst.admin_connect(sid, environ, payload) on the real instance -> (ok, value | exn name)."""
    async def main():
        try:
            with warnings.catch_warnings():
                warnings.simplefilter('ignore')
                r = await srv.aw(d.inst.admin_connect('sid', {}, payload))
            return True, r
        except BaseException as e:
            return False, coqio.exn_name(e)
    return main()


def tv_case(is_async, desc, mode, ro, payloads, d=None):
    """Run the real admin_connect directly on each payload.  Returns list of (term, accepted)."""
    async def main():
        auth, auth_p, pred = build_auth(desc)
        admin = {'auth': auth, 'mode': mode, 'read_only': ro}
        drv = admin_drv.AdminServerDriver(MIN_CFG, 'async' if is_async else 'sync', False, admin)
        out = []
        for payload in payloads:
            if pred is not None:
                pred.last = None
            ok, val = await direct_call(drv, copy.deepcopy(payload))
            drv.bg = []
            call, awaited = pred.oracle_fields(payload) if pred is not None else ((False, 'OtherError'), None)
            iscoro = bool(pred is not None and asyncio.iscoroutinefunction(pred.fn))
            out.append(('(TV %s %s %s %s %s %s %s)' % (cbool(is_async), c_acfg(auth_p, ro, mode, '/admin'), pv(payload),
                                                        c_res(*call), cbool(iscoro), c_awaited(awaited),
                                                        c_res(ok, val)), ok))
        return out
    return asyncio.run(main())


def part_a(chk, cases, meta):
    rng = chk.rng.sub('a')
    n_cfg = 700 if chk.thorough else 45
    per = 25 if chk.thorough else 9
    for i in range(n_cfg):
        is_async = (i % 2 == 1)
        lab, desc, creds = gen_auth_config(rng, is_async, 7 + i)
        mode, ro = rng.choice(MODES)
        labelled = []
        for _ in range(per):
            plab, payload = gen_payload(rng, creds, True)
            if payload == ABSENT:
                payload = None
            if no_integral_float(payload):
                labelled.append((plab, payload))
        try:
            results = tv_case(is_async, desc, mode, ro, [x for _, x in labelled])
        except Exception as e:
            chk.broken_obligation('driver error in TV configuration %d: %r' % (i, e))
            continue
        for (plab, payload), (term, ok) in zip(labelled, results):
            cases.append(term)
            meta.append({'part': 'TV', 'async': is_async, 'config': lab, 'payload': plab,
                         'replay': {'part': 'TV', 'async': is_async, 'auth': repr(desc), 'mode': mode, 'read_only': ro,
                                    'payload': repr(payload)}})
            chk.count(1, ('TV', is_async, lab, plab, ok),
                      {'part': 'TV', 'class': 'async' if is_async else 'sync', 'auth': lab, 'payload': plab,
                       'accepted': ok} if len(chk.samples) < 2 else None)
            chk.dist('TV config ' + lab)
            chk.dist('payload ' + plab)

    # instrument(): every mode / read_only value, both classes
    partial_seen = []
    ro_values = [False, True, 0, 1, '', 'yes', None, [], [0]]
    mode_values = ['development', 'production', 'Development', 'dev', '', None, 1]
    for is_async in (False, True):
        for mode in mode_values:
            for ro in ro_values:
                ns = rng.choice(['/admin', '/admin', '/ops', '/a/b'])
                term, flags = iv_case(is_async, mode, ro, ns)
                if any(flags) != all(flags) and not partial_seen:
                    partial_seen.append(flags)
                    chk.broken_obligation('instrument() installed only some of the four wrappers '
                                          '[_trigger_event, basic_enter_room, basic_leave_room, emit]: %r '
                                          '(mode %r)' % (flags, mode))
                cases.append(term)
                meta.append({'part': 'IV', 'replay': {'part': 'IV', 'async': is_async, 'mode': repr(mode),
                                                      'read_only': repr(ro), 'namespace': ns}})
                chk.count(1, ('IV', is_async, repr(mode), repr(ro)))
                chk.dist('IV')


def iv_case(is_async, mode, ro, ns):
    async def main():
        admin = {'auth': False, 'mode': mode, 'read_only': ro, 'namespace': ns}
        d = admin_drv.AdminServerDriver(MIN_CFG, 'async' if is_async else 'sync', False, admin)
        flags = d.app_path_patched()
        term = '(IV %s %s %s %s)' % (cbool(is_async), c_acfg(False, ro, mode, ns),
                                     clist([cstr(e) for e in d.admin_handlers()]), cbool(any(flags)))
        return term, flags
    return asyncio.run(main())


# --------------------------------------------------------------------------------------
# (b) the real connect path
# --------------------------------------------------------------------------------------
def decode_connect_data(payload):
    """what the server's decoder hands to _handle_connect for this CONNECT payload."""
    import json
    from socketio import packet
    wire = '0/admin,' if payload == ABSENT else '0/admin,' + json.dumps(payload, separators=(',', ':'))
    return packet.Packet(encoded_packet=wire).data


def answers_of(effs, eio, ns):
    out, events = [], []
    for e in effs:
        if e[0] != 'Out' or e[1] != eio:
            continue
        p = admin_drv.split_packet(e[2])
        if p is None or p[1] != ns:
            continue
        if p[0] == 0:
            out.append('(AConnect %s)' % pv(p[3]))
        elif p[0] == 4:
            out.append('(AConnectError %s)' % pv(p[3]))
        elif p[0] == 1:
            out.append('(ADisconnect %s)' % pv(p[3]))
        else:
            events.append(p[3][0] if isinstance(p[3], list) and p[3] else '?')
    return out, events


def cn_case(is_async, always, mode, ro, desc, payload):
    """One CONNECT on the admin namespace through the real connect path.  Returns (term, info)."""
    auth, auth_p, pred = build_auth(desc)
    cfg = dict(MIN_CFG)
    cfg['always_connect'] = always
    ops = [('eio_connect', 'e0', {'REMOTE_ADDR': 'e0'}), ('msg', 'e0', server_hist.eio_decode(server_hist.frame(0, '/'))),
           ('admin_eio_connect', 'a0'), ('admin_connect', 'a0', payload)]
    with warnings.catch_warnings():
        warnings.simplefilter('ignore')
        res, dump, d = admin_drv.run_ops(cfg, ops, 'async' if is_async else 'sync', False,
                                         {'auth': auth, 'mode': mode, 'read_only': ro})
    effs = res[3][0]
    answers, events = answers_of(effs, 'a0', d.admin_ns)
    member = any(eio == 'a0' for _, eio in d.admin_members())
    bystander = [e for e in effs if e[0] == 'Out' and e[1] == 'e0'] + [e for e in effs if e[0] == 'Call']
    data = decode_connect_data(payload)
    eff = data if data else None
    call, awaited = pred.oracle_fields(eff) if pred is not None else ((False, 'OtherError'), None)
    iscoro = bool(pred is not None and asyncio.iscoroutinefunction(pred.fn))
    term = '(CN %s %s %s %s %s %s %s %s %s)' % (cbool(is_async), cbool(always), c_acfg(auth_p, ro, mode, '/admin'),
                                                pv(data), c_res(*call), cbool(iscoro), c_awaited(awaited),
                                                clist(answers), cbool(member))
    # what the predicate finally says for this payload (awaited if the class can await)
    final = awaited if (awaited is not None and is_async) else call
    return term, {'answers': answers, 'events': events, 'member': member, 'bystander': bystander, 'call': final,
                  'shape': pred.shape if pred else None, 'pred': pred.kind if pred else None}


def part_b(chk, cases, meta):
    rng = chk.rng.sub('b')
    n = 9000 if chk.thorough else 330
    for i in range(n):
        is_async = (i % 2 == 1)
        always = rng.random() < 0.2
        mode, ro = MODES[i % 4]
        if rng.random() < 0.06 and is_async:
            c = copy.deepcopy(rng.choice(CREDS))
            p = gen_pred(rng, False, c, 900 + i, ['eq', 'const'], shape='async-callable')
            lab, desc, creds = 'predicate-async-callable', {'kind': 'predicate', 'spec': p.spec}, [c]
        else:
            lab, desc, creds = gen_auth_config(rng, is_async, 900 + i)
            if desc['kind'] == 'predicate' and desc['spec']['shape'] != 'function' and not is_async and rng.random() < 0.7:
                # a coroutine function on the threaded server is a documented misuse; keep only a few
                desc['spec']['shape'] = 'function'
                lab = 'predicate-function'
        plab, payload = gen_payload(rng, creds, False)
        if payload != ABSENT and not no_integral_float(payload):
            continue
        try:
            decode_connect_data(payload)
        except Exception:
            chk.dist('CN payload not expressible on the wire (top-level number)')
            continue
        try:
            term, info = cn_case(is_async, always, mode, ro, desc, payload)
        except Exception as e:
            chk.broken_obligation('driver error in CN case %d: %r' % (i, e))
            continue
        cases.append(term)
        rep = {'part': 'CN', 'async': is_async, 'always_connect': always, 'mode': mode, 'read_only': ro,
               'auth': repr(desc), 'auth_kind': lab, 'payload': repr(payload), 'answers': info['answers'],
               'member': info['member'], 'predicate_result': repr(info['call'])}
        m = {'part': 'CN', 'config': lab, 'payload': plab, 'pred': info['pred'], 'shape': info['shape'],
             'call_ok': info['call'][0], 'member': info['member'], 'async': is_async, 'replay': rep}
        meta.append(m)
        key = ('CN', is_async, always, mode, ro, lab, plab, info['member'], len(info['answers']))
        chk.count(1, key, {'part': 'CN', 'class': 'async' if is_async else 'sync', 'auth': lab, 'payload': plab,
                           'mode': mode, 'read_only': ro, 'member_after': info['member'],
                           'answers': info['answers']} if i < 2 else None)
        chk.dist('CN config ' + lab)
        chk.dist('CN payload ' + plab)
        chk.dist('CN accepted' if info['member'] else
                 'CN refused attempt also received %d admin events' % len(info['events']))
        if info['bystander']:
            chk.violation('admin-connect-visible-to-application',
                          'an admin connection attempt produced effects for an application client: %r'
                          % (info['bystander'][:3],), rep)


# --------------------------------------------------------------------------------------
# (c) read-only
# --------------------------------------------------------------------------------------
RO_CFG = {'handlers': {'/': {'ev': 1, 'hello': 2}, '/chat': {'ev': 1}}, 'ns_handlers': {}, 'namespaces': None,
          'always_connect': False, 'serializer': 'default',
          'behav': {1: {'arity': None, 'actions': [], 'outcome': ('ret', None)},
                    2: {'arity': None, 'actions': [], 'outcome': ('ret', None)}}}


def app_view(dump, admin_ns, admin_eios):
    d = copy.deepcopy(dump)
    d['rooms'] = [x for x in d['rooms'] if x[0] != admin_ns]
    d['pending'] = [x for x in d['pending'] if x[0] != admin_ns]
    for k in ('environ', 'binpkt', 'live'):
        d[k] = [x for x in d[k] if x not in admin_eios]
    d['sessions'] = [x for x in d['sessions'] if x[0] not in admin_eios]
    return d


RO_SETUP = [('eio_connect', 'e0', {'REMOTE_ADDR': 'e0'}), ('msg', 'e0', '0'),
            ('eio_connect', 'e1', {'REMOTE_ADDR': 'e1'}), ('msg', 'e1', '0/chat,'), ('msg', 'e1', '0'),
            ('enter', 'S0', 'r1', '/'), ('enter', 'S2', 'r1', '/'),
            ('admin_eio_connect', 'a0'), ('admin_connect', 'a0', {'u': 'x'})]


def ro_case(is_async, coro, mode, ro, ev, args, pid):
    admin = {'auth': {'u': 'x'}, 'mode': mode, 'read_only': ro}
    ops = RO_SETUP + [('admin_event', 'a0', ev, args, pid)]
    m = 'async' if is_async else 'sync'
    res0, dump0, d0 = admin_drv.run_ops(RO_CFG, RO_SETUP, m, coro, admin)
    res, dump, d = admin_drv.run_ops(RO_CFG, ops, m, coro, admin)
    effs = res[-1][0]
    app_effs = [e for e in effs if (e[0] == 'Out' and e[1] != 'a0') or e[0] in ('Call', 'CbCall')]
    changed = app_view(dump, '/admin', ['a0']) != app_view(dump0, '/admin', ['a0'])
    happened = bool(app_effs) or changed
    term = '(RO %s %s %s)' % (c_acfg({'u': 'x'}, ro, mode, '/admin'), cstr(ev), cbool(happened))
    return term, happened, app_effs, changed


def part_c(chk, cases, meta):
    rng = chk.rng.sub('c')
    reps = 12 if chk.thorough else 2
    for is_async in (False, True):
        for mode, ro in MODES:
            for rep in range(reps):
                for ev in ('emit', 'join', 'leave', '_disconnect'):
                    ns = rng.choice(['/', '/', '/chat'])
                    flt = rng.choice([None, None, 'r1' if ns == '/' else None, 'S0' if ns == '/' else 'S1'])
                    if ev == 'emit':
                        args = [ns, flt, rng.choice(['hello', 'ev', 'news']), rng.choice([1, 'x', {'a': 1}])]
                    elif ev == 'join':
                        args = [ns, rng.choice(['r9', 'lobby']), flt]
                    elif ev == 'leave':
                        args = [ns, 'r1' if ns == '/' else 'S1', flt]
                    else:
                        args = [ns, False, flt]
                    pid = rng.choice([None, 7])
                    try:
                        term, happened, app_effs, changed = ro_case(is_async, rep % 2 == 0, mode, ro, ev, args, pid)
                    except Exception as e:
                        chk.broken_obligation('driver error in RO case: %r' % (e,))
                        continue
                    cases.append(term)
                    meta.append({'part': 'RO', 'replay': {'part': 'RO', 'async': is_async, 'coro': rep % 2 == 0,
                                                          'mode': mode, 'read_only': ro,
                                                          'event': ev, 'args': repr(args), 'id': pid,
                                                          'application_effects': repr(app_effs[:4]),
                                                          'state_changed': changed}})
                    chk.count(1, ('RO', is_async, mode, ro, ev, ns, repr(flt), happened))
                    chk.dist('RO %s/%s %s' % (mode, 'read_only' if ro else 'writable', 'happened' if happened else 'nothing'))


# --------------------------------------------------------------------------------------
# (d) transparency: side by side
# --------------------------------------------------------------------------------------
def gen_tr_history(rng, thorough):
    k = server_hist.Knobs(n_ops=rng.choice([18, 26, 34]) if thorough else rng.choice([14, 20, 26]),
                          refuse=0.15, actions=0.3, catchall=0.25, class_ns=0.3)
    mix = rng.choice(['rooms', 'events', 'acks', 'lifecycle'])
    if mix == 'rooms':
        k.w.update({'enter': 6, 'emit': 7, 'leave': 3, 'close_room': 1.5, 'rooms': 2, 'session': 0.3, 'junk': 0.1,
                    'binary': 0.2, 'ack': 0.3, 'event': 1, 'emit_cb': 0.5})
    elif mix == 'events':
        k.w.update({'event': 9, 'binary': 2.5, 'connect': 5, 'emit': 0.5, 'emit_cb': 0.2, 'enter': 0.5, 'leave': 0.2,
                    'close_room': 0.1, 'rooms': 0.2, 'session': 0.5, 'junk': 0.6, 'ack': 0.3, 'client_disconnect': 1.2})
    elif mix == 'acks':
        k.w.update({'emit_cb': 6, 'ack': 6, 'emit': 2, 'event': 2, 'binary': 1.5, 'enter': 1, 'disconnect': 1})
    else:
        k.w.update({'connect': 7, 'client_disconnect': 3, 'close': 2.5, 'disconnect': 3, 'eio_connect': 3, 'event': 2,
                    'emit': 2, 'enter': 2, 'session': 1})
    cfg, ops = server_hist.gen_history(rng, k)
    return mix, cfg, ops


def insert_admin_ops(rng, ops, variant):
    """variant: 'none' | 'connected' | 'comes-and-goes'."""
    out = [(False, o) for o in ops]
    if variant == 'none':
        if rng.random() < 0.5:
            out.insert(rng.randrange(len(out) + 1), (True, ('admin_tick',)))
        return out
    first = 0 if variant == 'connected' else rng.randrange(0, max(1, len(out) // 2))
    ins = [(True, ('admin_eio_connect', 'adm0')), (True, ('admin_connect', 'adm0', {'u': 'x'}))]
    out[first:first] = ins
    for _ in range(rng.randrange(0, 3)):
        out.insert(rng.randrange(first + 2, len(out) + 1), (True, ('admin_tick',)))
    if variant == 'comes-and-goes':
        pos = rng.randrange(first + 2, len(out) + 1)
        out.insert(pos, (True, ('admin_close', 'adm0', 'transport close')))
        if rng.random() < 0.5:
            pos2 = rng.randrange(pos + 1, len(out) + 1)
            out[pos2:pos2] = [(True, ('admin_eio_connect', 'adm1')), (True, ('admin_connect', 'adm1', {'u': 'x'}))]
    if rng.random() < 0.3:
        # a second admin, and a refused attempt
        pos = rng.randrange(first + 2, len(out) + 1)
        out[pos:pos] = [(True, ('admin_eio_connect', 'adm2')), (True, ('admin_connect', 'adm2', {'u': 'wrong'}))]
    return out


def c_effs(effs):
    return clist([srv.c_eff(e) for e in effs if e[0] not in ('BgRaised', 'NestedStart')])


def tr_case(cfg, ops, mode, coro, admin, mixed):
    """Run plain and instrumented; returns (term, info)."""
    plain, dplain, _ = admin_drv.run_ops(cfg, ops, mode, coro, None)
    all_ops = [o for _, o in mixed]
    instr_all, dinstr, d = admin_drv.run_ops(cfg, all_ops, mode, coro, admin)
    instr = [r for (is_adm, _), r in zip(mixed, instr_all) if not is_adm]
    adm = [r for (is_adm, _), r in zip(mixed, instr_all) if is_adm]
    A = list(d.admin_eios)
    term = '(TR %s %s %s %s %s %s %s)' % (
        clist([cstr(a) for a in A]), cstr(d.admin_ns),
        clist([c_effs(e) for e, _ in plain]), clist([c_effs(e) for e, _ in instr]), clist([c_effs(e) for e, _ in adm]),
        srv.c_dump(dplain), srv.c_dump(dinstr))
    n_admin_pkts = sum(1 for e, _ in instr_all for x in e if x[0] == 'Out' and x[1] in A)
    bg = [x for e, _ in instr_all for x in e if x[0] == 'BgRaised']
    n_eff = sum(len(e) for e, _ in instr_all)
    n_plain = sum(len(e) for e, _ in plain)
    # a run-away instrumented trace is judged here instead of being printed for Coq
    runaway = n_eff > 40 * (n_plain + 25)
    return term, {'admin_packets': n_admin_pkts, 'plain': plain, 'instr': instr, 'A': A, 'bg': bg, 'runaway': runaway}


EDGE_HISTORIES = [
    # emit to an empty list / tuple of rooms, namespace with and without members
    ('emit-empty-list-no-members', [('emit', 'news', 1, None, [], None, '/nobody', None)]),
    ('emit-empty-tuple-no-members', [('emit', 'news', 1, (), None, None, '/nobody', None)]),
    ('emit-empty-list-members', [('eio_connect', 'e0', {'REMOTE_ADDR': 'e0'}),
                                 ('msg', 'e0', '0'), ('emit', 'news', 1, None, [], None, '/', None)]),
    ('emit-none-no-members', [('emit', 'news', 1, None, None, None, '/nobody', None)]),
    ('emit-skip-empty-list', [('eio_connect', 'e0', {'REMOTE_ADDR': 'e0'}), ('msg', 'e0', '0'),
                              ('emit', 'news', (1, 2), None, None, [], '/', None)]),
    ('enter-unknown', [('enter', 'S9', 'r1', '/'), ('leave', 'S9', 'r1', '/'), ('rooms', 'S9', '/'),
                       ('disconnect', 'S9', '/'), ('close_room', 'r1', '/')]),
]


def part_d(chk, cases, meta):
    rng = chk.rng.sub('d')
    n = 4000 if chk.thorough else 150
    for i in range(n):
        mix, cfg, ops = gen_tr_history(rng, chk.thorough)
        mode = 'async' if i % 2 else 'sync'
        coro = (i % 4 < 2)
        amode, ro = MODES[(i // 2) % 4]
        variant = ['none', 'connected', 'comes-and-goes', 'connected'][(i // 8) % 4]
        admin = {'auth': {'u': 'x'}, 'mode': amode, 'read_only': ro}
        mixed = insert_admin_ops(rng, ops, variant)
        try:
            term, info = tr_case(cfg, ops, mode, coro, admin, mixed)
        except Exception as e:
            import traceback
            chk.broken_obligation('driver error in TR history %d (%s): %r %s' % (i, mode, e, traceback.format_exc()[-600:]))
            continue
        if info['runaway']:
            m = {'part': 'TR', 'tr': (ops, info['plain'], info['instr'], info['A'], amode)}
            chk.count(1, None)
            chk.dist('TR run-away instrumented trace (judged in Python)')
            chk.violation(tr_signature(m) + '-runaway',
                          'the instrumented run produced more than 40 times the effects of the plain run and differs '
                          'from it for the application (judged in Python, too large to print for Coq)',
                          {'part': 'TR', 'py': repr((cfg, mixed, mode, coro, amode, ro))})
            continue
        cases.append(term)
        meta.append({'part': 'TR', 'replay': {'part': 'TR', 'py': repr((cfg, mixed, mode, coro, amode, ro))},
                     'signature': None, 'tr': (ops, info['plain'], info['instr'], info['A'], amode)})
        nontrivial = info['admin_packets'] > 0 and any(e[0] == 'Out' and e[1] not in info['A']
                                                       for r, _ in info['instr'] for e in r)
        key = ('TR', mode, amode, ro, variant, tuple(sorted(set(o[0] for o in ops))), min(info['admin_packets'], 30)) \
            if nontrivial else None
        chk.count(1, key, {'part': 'TR', 'server': mode, 'admin_mode': amode, 'read_only': ro, 'admin_client': variant,
                           'ops': [repr(o)[:70] for o in ops[:6]], 'packets_to_admins': info['admin_packets']} if i < 2 else None)
        chk.dist('TR %s %s' % (mix, variant))
        chk.dist('TR admin mode %s%s' % (amode, '/read_only' if ro else ''))
        for b in info['bg']:
            chk.dist('TR background task raised ' + b[1])
    # directed edge targets
    for name, ops in EDGE_HISTORIES:
        for mode in ('sync', 'async'):
            for amode, ro in MODES:
                admin = {'auth': {'u': 'x'}, 'mode': amode, 'read_only': ro}
                mixed = insert_admin_ops(rng, ops, 'connected')
                try:
                    term, info = tr_case(MIN_CFG, ops, mode, True, admin, mixed)
                except Exception as e:
                    chk.broken_obligation('driver error in TR edge %s: %r' % (name, e))
                    continue
                cases.append(term)
                sig = SIG_EMPTY if name in ('emit-empty-list-no-members', 'emit-empty-tuple-no-members') else None
                meta.append({'part': 'TR', 'signature': sig, 'tr': (ops, info['plain'], info['instr'], info['A'], amode),
                             'replay': {'part': 'TR', 'edge': name, 'py': repr((MIN_CFG, mixed, mode, True, amode, ro))}})
                chk.count(1, ('TR-edge', name, mode, amode, ro))
                chk.dist('TR edge ' + name)


# --------------------------------------------------------------------------------------
# (e) pending authentication
# --------------------------------------------------------------------------------------
def part_e(chk, cases, meta):
    rng = chk.rng.sub('e')
    for amode, ro in MODES:
        for verdict in (False, True):
            ops = [('msg', 'e0', server_hist.eio_decode(server_hist.frame(2, '/', rng.choice([None, 3]),
                                                                       ['ev', {'card': '4111-1111'}]))),
                   ('emit', 'news', 'x', None, None, None, '/', None)]
            if rng.random() < 0.5:
                ops.append(('admin_tick',))
            try:
                before, window, after, member = admin_drv.run_pending_auth({'mode': amode, 'read_only': ro}, ops, verdict)
            except Exception as e:
                chk.broken_obligation('driver error in LK case: %r' % (e,))
                continue
            cases.append('(LK %d%%nat)' % len(window))
            names = []
            for e in window:
                p = admin_drv.split_packet(e[2])
                names.append(p[3][0] if p and isinstance(p[3], list) and p[3] else '?')
            meta.append({'part': 'LK', 'signature': SIG_PENDING,
                         'replay': {'part': 'LK', 'mode': amode, 'read_only': ro, 'verdict': verdict, 'ops': repr(ops),
                                    'admin_events_delivered_before_the_decision': names,
                                    'example': window[0][2][:200] if window else None,
                                    'member_after': member}})
            chk.count(1, ('LK', amode, ro, verdict, tuple(names)))
            chk.dist('LK %s: %d packets while pending' % (amode, len(window)))
            if member != verdict:
                chk.violation('pending-auth-wrong-final-decision', 'verdict %r but membership %r' % (verdict, member),
                              meta[-1]['replay'])


# --------------------------------------------------------------------------------------
# classification
# --------------------------------------------------------------------------------------
def has_bytes(v):
    if isinstance(v, (bytes, bytearray)):
        return True
    if isinstance(v, (list, tuple)):
        return any(has_bytes(x) for x in v)
    if isinstance(v, dict):
        return any(has_bytes(x) for x in v.values())
    return False


def tr_signature(m):
    """structural class of a transparency violation: what the first differing operation is."""
    ops, plain, instr, A, amode = m['tr']
    for o, (p, _), (x, _) in zip(ops, plain, instr):
        xa = [e for e in x if not (e[0] == 'Out' and e[1] in A) and e[0] != 'BgRaised']
        if p == xa:
            continue
        calls = [e for e in p if e[0] == 'Call']
        if o[0] == 'msg' and A and not [e for e in xa if e[0] == 'Call'] and (
                (calls and any(has_bytes(e[2]) for e in calls)) or (isinstance(o[2], (bytes, bytearray)) and not xa)):
            return SIG_BINARY
        if o[0] == 'emit' and o[3] in ([], ()) or (o[0] == 'emit' and o[4] in ([], ()) and not o[3]):
            if [e for e in xa if e[0] == 'Raised'] and not [e for e in p if e[0] == 'Raised']:
                return SIG_EMPTY
        return 'instrumented-run-differs-at-%s-%s' % (o[0], amode)
    return 'instrumented-final-state-differs-%s' % amode


def shrink_tr(m, sig):
    """Delta-debugging of a violating side-by-side history (admin operations are kept in place);
    candidates are judged in Python (projected effect lists differ, same signature), the result is
    re-judged in Coq by the caller."""
    import ast
    cfg, mixed, mode, coro, amode, ro = ast.literal_eval(m['replay']['py'])
    admin = {'auth': {'u': 'x'}, 'mode': amode, 'read_only': ro}

    def bad(cand):
        ops = [o for a, o in cand if not a]
        try:
            term, info = tr_case(cfg, ops, mode, coro, admin, cand)
        except Exception:
            return None
        mm = {'part': 'TR', 'tr': (ops, info['plain'], info['instr'], info['A'], amode)}
        differs = any(p != [e for e in x if not (e[0] == 'Out' and e[1] in info['A']) and e[0] != 'BgRaised']
                      for (p, _), (x, _) in zip(info['plain'], info['instr']))
        return term if differs and tr_signature(mm) == sig else None
    cur = list(mixed)
    chunk = max(1, len(cur) // 2)
    budget = 60
    while budget > 0 and len(cur) > 1:
        hit = None
        for i in range(0, len(cur), chunk):
            cand = cur[:i] + [x for x in cur[i:i + chunk] if x[0]] + cur[i + chunk:]
            if len(cand) == len(cur):
                continue
            budget -= 1
            if bad(cand) is not None:
                hit = cand
                break
            if budget <= 0:
                break
        if hit is not None:
            cur = hit
            chunk = max(1, min(chunk, len(cur) // 2))
        elif chunk == 1:
            break
        else:
            chunk = max(1, chunk // 2)
    term = bad(cur)
    if term is None:
        return None
    return term, {'part': 'TR', 'py': repr((cfg, cur, mode, coro, amode, ro)),
                  'operations': [repr(o) for _, o in cur]}


def classify(m, code):
    """signature and text for a case with bit 2."""
    part = m['part']
    if part == 'TR' and 'tr' in m:
        sig = tr_signature(m)
    elif m.get('signature'):
        sig = m['signature']
    elif part == 'CN':
        if m.get('shape') in ('async-callable', 'function-returning-coroutine') and m.get('async') and m.get('member'):
            sig = SIG_ACALL
        elif m.get('pred') is not None and not m.get('call_ok') and m.get('member'):
            sig = SIG_RAISES
        elif m.get('member'):
            sig = 'admin-accepted-without-valid-credentials-%s' % m['config']
        else:
            sig = 'admin-valid-credentials-refused-%s' % m['config']
    elif part == 'TV':
        sig = 'admin-connect-decision-differs-%s-%s' % ('async' if m['async'] else 'sync', m['config'])
    elif part == 'IV':
        sig = 'admin-registration-differs'
    elif part == 'RO':
        sig = 'read-only-admin-request-had-effect'
    elif part == 'TR':
        sig = 'instrumented-run-differs-for-application'
    else:
        sig = 'c18-' + part
    what = {
        SIG_RAISES: 'the configured predicate raised for this payload; the attempt was NOT refused: no answer was sent and '
                    'the transport stays a member of the admin namespace (it receives every admin broadcast)',
        SIG_ACALL: 'the configured predicate returns a coroutine without being a coroutine function (object with '
                   '`async def __call__`, or a function returning a coroutine); AsyncServer did not await it, the '
                   'coroutine object is truthy: the attempt is accepted although the awaited answer is falsy / raises',
        SIG_EMPTY: 'emit(room=[]) / emit(to=()) to a namespace nobody is connected to returns None on the plain server and '
                   'raises IndexError on the server instrumented in development mode',
        SIG_BINARY: 'development mode with an admin client connected: an incoming event that carries bytes (BINARY_EVENT) '
                    'never reaches the application handler and is not acknowledged (the event_received report puts the '
                    'arguments in a nested tuple, which the packet encoder does not treat as binary: TypeError before the '
                    'original _trigger_event runs)',
        SIG_PENDING: 'while the coroutine predicate of an admin CONNECT is pending, the unauthenticated transport is '
                     'already in the admin namespace and receives the admin broadcasts (event_received with the '
                     'application payloads, event_sent, server_stats)',
    }.get(sig, 'the real class violates the Coq-checked C18 checker on this case (code %d)' % code)
    return sig, what


def evaluate(chk, cases, meta, gen_ok):
    imports, fn = (IMPORTS_GEN, 'c18_eval') if gen_ok else (IMPORTS_SPEC, 'c18_eval_spec')
    codes, errors = coqio.eval_cases('c18', imports, '', 'c18case', cases, fn, shard=120)
    chk.traces_validated += len(cases)
    for e in errors:
        chk.broken_obligation('case evaluation failed: ' + e)
    seen = set()
    corr = []
    for idx, code in sorted(codes.items()):
        m = meta[idx]
        if code & 2:
            sig, what = classify(m, code)
            if sig in seen:
                continue
            seen.add(sig)
            rep = dict(m['replay'])
            rep['case'] = cases[idx][:4000]
            if m['part'] == 'TR' and 'py' in rep:
                try:
                    small = shrink_tr(m, sig)
                    if small is not None:
                        c2, e2 = coqio.eval_cases('c18_shr', imports, '', 'c18case', [small[0]], fn)
                        if not e2 and c2.get(0, 0) & 2:
                            rep = small[1]
                            rep['case'] = small[0][:4000]
                except Exception:
                    pass
            chk.violation(sig, what, rep)
        else:
            corr.append((idx, code))
    csig = set()
    for idx, code in corr:
        m = meta[idx]
        s = 'c18-%s-correspondence' % m['part']
        if s in csig:
            continue
        csig.add(s)
        chk.broken_obligation('correspondence: the real class departs from the generated functions / the server model '
                              'on a %s case: %s' % (m['part'], cases[idx][:600]))
        rep = dict(m['replay'])
        rep['case'] = cases[idx][:4000]
        chk.violation(s, 'model and implementation disagree', rep, no_input=True)
    return codes


def gen_is_current():
    """Admin/Gen_admin.v and its .vo are the translation of the tree under test (guards against a
    concurrent run regenerating them from another VERIF_REPO, and against a stale .vo)."""
    from translator import admin2coq
    path = os.path.join(common.COQ, admin2coq.OUT)
    try:
        text = admin2coq.translate()
    except Exception:
        return not os.path.exists(path)          # failed closed: there must be no output
    if not os.path.exists(path) or open(path).read() != text:
        return False
    return os.path.exists(path + 'o') and admin2coq.vo_is_fresh(text)


def prove_current(chk, targets):
    """chk.prove(), repeated when the generated file was changed under it."""
    saved = list(chk.broken)
    for attempt in range(3):
        chk.broken[:] = saved
        proved = chk.prove(targets=targets)
        if gen_is_current():
            return proved
        if not os.path.exists(os.path.join(common.COQ, 'Admin', 'Gen_admin.vo')):
            return proved                          # the generated text does not compile: reported by prove()
    chk.broken_obligation('Admin/Gen_admin.v does not match the translation of %s after three builds (another '
                          'process regenerating it from a different tree?)' % common.REPO)
    return False


def run(chk):
    chk.rule = ('TV: real admin_connect called directly, distinct by (class, auth kind, payload mutation kind, outcome); '
                'IV: every (class, mode value, read_only value); CN: CONNECT on the admin namespace through the real '
                'connect path, distinct by (class, always_connect, mode, read_only, auth kind, mutation kind, membership, '
                'number of answers); RO: (class, mode, read_only, event, namespace, filter, effect); TR: application '
                'histories of gen/server_hist.py (rooms / events / acks / lifecycle mixes) side by side, non-trivial = '
                'at least one packet went to an admin transport AND at least one to an application transport, distinct '
                'by (server class, admin mode, read_only, admin client variant, operation kinds, admin packet count); '
                'LK: (mode, read_only, verdict, delivered admin events)')
    chk.trusted_base = ['Coq 8.16.1 kernel + vm_compute',
                        'harness/translator/admin2coq.py (+ translator/py2coq.py as a library) and its runtime '
                        'coq/Routing/PyRuntime.v, coq/Admin/AdminRuntime.v (validated every run: TV / IV cases)',
                        'coq/Admin/AdminSpec.v (reading of the property: accepted_by, spec_registrations)',
                        'coq/Admin/Wrappers.v (hand model of the four development-mode wrappers; tied by the TR runs only)',
                        'coq/Server/Server.v, coq/Manager/Manager.v (hand models, tied by C03-C06/C11)',
                        'harness/drivers/admin_drv.py + drivers/srv.py (real Server/AsyncServer, real InstrumentedServer; '
                        'start_background_task recorded, sio.sleep a no-op, Socket class patches undone after instrument())',
                        'gen/server_hist.py history generator', 'vt/coqio.py printers']
    chk.assumptions = ['Python == is py_eq of Base/PyVal.v: bool/int compare numerically (true equals a configured 1), '
                       'floats only with floats (payloads with integral floats are not sampled), dict keys are strings',
                       'auth configurations in the quantifier: False, non-empty dict, non-empty list of dicts, predicate; '
                       'falsy non-False values ({} [] 0 "") disable authentication as well (theorem '
                       'C18_auth_falsy_configuration_disables, sampled as falsy-not-False)',
                       'the services called after the decision (start_background_task, eio.create_event) return normally '
                       '(premise ext_total of C18_auth)',
                       'admin reports are encodable (premise `encodable` of C18_transparent, pointwise)',
                       'handlers run inline (async_handlers=False); the stats loop runs only at explicit admin_tick operations']
    from translator import admin2coq
    ok = prove_current(chk, ['Admin/AdminGenCheck.v'])
    gen_ok = os.path.exists(os.path.join(common.COQ, 'Admin', 'AdminGenCheck.vo')) and \
        os.path.exists(os.path.join(common.COQ, admin2coq.OUT)) and admin2coq.vo_is_fresh()
    if not gen_ok:
        chk.broken_obligation('Admin/Gen_admin.v is missing or its .vo is not the translation of the tree under test: '
                              'cases are judged against the hand-written specification only')
        coqio.build(['Check/C18Check.v'])
    chk.extra['generated_functions_available'] = gen_ok
    cases, meta = [], []
    part_a(chk, cases, meta)
    part_b(chk, cases, meta)
    part_c(chk, cases, meta)
    part_d(chk, cases, meta)
    part_e(chk, cases, meta)
    evaluate(chk, cases, meta, gen_ok)
    if gen_ok and not admin2coq.vo_is_fresh(admin2coq.translate()):
        chk.broken_obligation('generated files were changed while the check was running (another VERIF_REPO?)')
    return ok


def replay(chk, data):
    """Re-run the recorded scenario on the real classes of the tree under test and re-judge it in Coq."""
    import ast
    rep = data['replay']
    part = rep.get('part')
    chk.regenerate()
    coqio.build(['Admin/AdminGenCheck.v'])
    print('signature:', data.get('signature'))
    term = None
    if part == 'TR':
        cfg, mixed, mode, coro, amode, ro = ast.literal_eval(rep['py'])
        ops = [o for a, o in mixed if not a]
        admin = {'auth': {'u': 'x'}, 'mode': amode, 'read_only': ro}
        term, info = tr_case(cfg, ops, mode, coro, admin, mixed)
        for o, (p, _), (x, _) in zip(ops, info['plain'], info['instr']):
            xa = [e for e in x if not (e[0] == 'Out' and e[1] in info['A'])]
            print(('   ' if p == xa else '!! '), o, '\n      plain       ', p, '\n      instrumented', xa)
        if info['runaway']:
            print('run-away instrumented trace: judged in Python')
            return 1
    elif part == 'LK':
        ops = ast.literal_eval(rep['ops'])
        before, window, after, member = admin_drv.run_pending_auth({'mode': rep['mode'], 'read_only': rep['read_only']},
                                                                   ops, rep['verdict'])
        print('delivered to the unauthenticated transport while the predicate was pending:')
        for e in window:
            print('   ', e[2][:160])
        print('answer afterwards:', [e[2] for e in after], 'member:', member)
        term = '(LK %d%%nat)' % len(window)
    elif part == 'CN':
        desc = ast.literal_eval(rep['auth'])
        payload = ast.literal_eval(rep['payload'])
        term, info = cn_case(rep['async'], rep['always_connect'], rep['mode'], rep['read_only'], desc, payload)
        print('class:', 'AsyncServer' if rep['async'] else 'Server', ' auth:', desc, ' payload:', payload)
        print('answers:', info['answers'], ' member afterwards:', info['member'],
              ' predicate result:', info['call'], ' admin events received:', info['events'])
    elif part == 'TV':
        desc = ast.literal_eval(rep['auth'])
        payload = ast.literal_eval(rep['payload'])
        (term, ok), = tv_case(rep['async'], desc, rep['mode'], rep['read_only'], [payload])
        print('auth:', desc, ' payload:', payload, ' accepted:', ok)
    elif part == 'IV':
        term, flags = iv_case(rep['async'], ast.literal_eval(rep['mode']), ast.literal_eval(rep['read_only']),
                              rep.get('namespace', '/admin'))
        print('wrappers installed:', flags)
    elif part == 'RO':
        term, happened, app_effs, changed = ro_case(rep['async'], rep.get('coro', False), rep['mode'], rep['read_only'],
                                                    rep['event'], ast.literal_eval(rep['args']), rep['id'])
        print('application effects:', app_effs, ' state changed:', changed)
    if term is None:
        print('nothing to replay for part', part)
        return 0
    codes, errors = coqio.eval_cases('c18_replay', IMPORTS_GEN, '', 'c18case', [term], 'c18_eval')
    if errors:
        codes, errors = coqio.eval_cases('c18_replay', IMPORTS_SPEC, '', 'c18case', [term], 'c18_eval_spec')
    code = codes.get(0, 0)
    print('checker code (bit 1 = real class departs from the generated functions / server model, '
          'bit 2 = property violated):', code, errors or '')
    return 0 if code == 0 else 1
