"""C14 - the asyncio classes behave exactly like their threaded counterparts.
Every scenario is executed once on the threaded class and once on the asyncio class; the two
normalised traces are compared DIRECTLY inside Coq (and each with the model, for the server
pair).  Other pairs reuse the drivers of the properties that own them."""
import importlib

from vt import coqio
from vt.coqio import pv, clist, cN
from drivers import srv
from gen import server_hist
from props import srvcommon

IMPORTS = 'From VT Require Import Check.C14Check.'


def server_cases(chk, n):
    rng = chk.rng
    cases, meta = [], []
    k = server_hist.Knobs(n_ops=28, refuse=0.2, actions=0.3, raise_p=0.1, catchall=0.3, nested_ack=0.25)
    k.w.update({'junk': 1.5, 'binary': 1.5, 'emit_cb': 2, 'ack': 2, 'session': 2})
    directed = directed_server_histories(rng)
    for i in range(n + len(directed)):
        cfg, ops = directed[i - n] if i >= n else server_hist.gen_history(rng, k)
        try:
            rs, ds = srv.run_history(cfg, ops, 'sync', False)
            ra, da = srv.run_history(cfg, ops, 'async', i % 2 == 0)
        except Exception as e:
            chk.broken_obligation('driver error (server pair, history %d): %r' % (i, e))
            continue
        xops = srvcommon.expand(ops)
        ops_s = clist([srv.c_op(o, t) for o, (_, t) in zip(xops, rs)])
        ops_a = clist([srv.c_op(o, t) for o, (_, t) in zip(xops, ra)])
        obs_s = clist([clist([srv.c_eff(e) for e in effs]) for effs, _ in rs])
        obs_a = clist([clist([srv.c_eff(e) for e in effs]) for effs, _ in ra])
        cases.append('(PSrv %s %s %s %s %s %s %s)' % (srv.c_cfg(cfg), ops_s, ops_a, obs_s, obs_a,
                                                      srv.c_dump(ds), srv.c_dump(da)))
        meta.append(('server', (cfg, ops)))
        sig = srvcommon.effect_signature(rs)
        chk.count(1, ('server', sig) if sum(len(e) for e, _ in rs) >= 3 else None,
                  {'pair': 'Server/AsyncServer', 'ops': [repr(o)[:80] for o in ops[:6]]} if i < 2 else None)
        chk.dist('pair server')
    return cases, meta


def directed_server_histories(rng):
    """Scenarios in which coroutine handlers suspend several times while other work is pending:
    a transport with several namespaces is lost (or disconnected) and every disconnect / event
    handler performs two or three emits to rooms that other clients are in.  Per-peer packet order
    is where a sequential implementation and a concurrent one differ."""
    out = []
    for variant in range(6):
        nss = ['/', '/chat', '/a'][:2 + variant % 2]
        behav = {}
        handlers = {}
        hid = 0
        for ns in nss:
            t = {}
            for ev, arity in (('connect', 2), ('disconnect', 2), ('ev', None)):
                hid += 1
                acts = []
                if ev != 'connect':
                    acts = [('emit_room', ev + '-first', ns, 'lobby', False), ('emit_room', ev + '-second', 'x', 'lobby', True)]
                    if variant >= 3:
                        acts.append(('emit_room', ev + '-third', [1], None, False))
                else:
                    acts = [('enter', 'lobby')]
                behav[hid] = {'arity': arity, 'actions': acts, 'outcome': ('ret', None)}
                t[ev] = hid
            handlers[ns] = t
        cfg = {'handlers': handlers, 'ns_handlers': {}, 'behav': behav, 'namespaces': list(nss),
               'always_connect': bool(variant % 2), 'serializer': 'default'}
        ops = [('eio_connect', 'e0', {'REMOTE_ADDR': 'e0'}), ('eio_connect', 'e1', {'REMOTE_ADDR': 'e1'})]
        for e in ('e0', 'e1'):
            for ns in nss:
                ops.append(('msg', e, server_hist.eio_decode(server_hist.frame(0, ns))))
        ops.append(('msg', 'e0', server_hist.eio_decode(server_hist.frame(2, nss[-1], 5, ['ev', 1]))))
        if variant % 3 == 2:
            ops.append(('disconnect', 'S0', nss[0]))
        ops.append(('close', 'e0', 'transport close'))
        ops.append(('emit', 'after', 1, 'lobby', None, None, nss[0], None))
        ops.append(('close', 'e1', 'transport error'))
        out.append((cfg, ops))
    # server-initiated acknowledgements: callback emits answered once, twice, and twice with the duplicate
    # arriving while the callback of the first is still running (binary ACKs as well)
    for variant in range(6):
        ns = ['/', '/chat'][variant % 2]
        cfg = {'handlers': {ns: {'connect': 1}}, 'ns_handlers': {},
               'behav': {1: {'arity': 2, 'actions': [], 'outcome': ('ret', None)}}, 'namespaces': [ns],
               'always_connect': False, 'serializer': 'default'}
        ops = [('eio_connect', 'e0', {'REMOTE_ADDR': 'e0'}), ('msg', 'e0', server_hist.eio_decode(server_hist.frame(0, ns))),
               ('emit', 'q', 'x', 'S0', None, None, ns, 1), ('emit', 'q', [1], 'S0', None, None, ns, 2)]
        ack1 = server_hist.eio_decode(server_hist.frame(3, ns, 1, ['ok']))
        ack2 = server_hist.eio_decode(server_hist.frame(3, ns, 2, []))
        ops.append(('msg_nested' if variant >= 2 else 'msg', 'e0', ack1))
        ops.append(('msg', 'e0', ack1))
        if variant >= 4:
            ops.append(('disconnect', 'S0', ns))
        ops.append(('msg_nested', 'e0', ack2))
        ops.append(('emit', 'q', None, 'S0', None, None, ns, 3))
        ops.append(('close', 'e0', 'transport close'))
        out.append((cfg, ops))
    # class-based namespaces (and function handlers) whose handlers RAISE, TypeError included: the legacy
    # "disconnect handler without reason" retry is triggered by any TypeError, also one raised by the body
    for variant in range(12):
        ns = ['/', '/chat'][variant % 2]
        exn = ['TypeError', 'TypeError', 'ValueError'][variant % 3]
        arity = [2, None, 1, 2][variant % 4]
        behav = {1: {'arity': 2, 'actions': [], 'outcome': ('ret', None)},
                 2: {'arity': arity, 'actions': [], 'outcome': ('raise', exn)},
                 3: {'arity': None, 'actions': [], 'outcome': ('raise', exn) if variant % 2 else ('ret', (b'bin', 'meta'))}}
        table = {ns: {'connect': 1, 'disconnect': 2, 'ev': 3}}
        cfg = {'handlers': {} if variant < 8 else table, 'ns_handlers': table if variant < 8 else {}, 'behav': behav,
               'namespaces': [ns], 'always_connect': bool(variant % 2), 'serializer': 'default'}
        ops = [('eio_connect', 'e0', {'REMOTE_ADDR': 'e0'}), ('msg', 'e0', server_hist.eio_decode(server_hist.frame(0, ns))),
               ('msg', 'e0', server_hist.eio_decode(server_hist.frame(2, ns, 7, ['ev', 'x'])))]
        ops.append([('msg', 'e0', server_hist.eio_decode(server_hist.frame(1, ns))), ('close', 'e0', 'transport close'),
                    ('disconnect', 'S0', ns)][variant % 3])
        ops.append(('rooms', 'S0', ns))
        ops.append(('close', 'e0', 'transport error'))
        out.append((cfg, ops))
    return out


def generic_cases(chk):
    """Pairs owned by other packages: each provides `parity_traces(rng, n) -> list of
    (kind_name, scenario_repr, trace_sync, trace_async)` with traces as lists of plain values."""
    cases, meta = [], []
    kinds = {}
    for modname in ('props.c08', 'props.c15', 'props.c17', 'props.c19', 'props.c07', 'props.c10', 'props.c12'):
        try:
            mod = importlib.import_module(modname)
        except Exception:
            continue
        fn = getattr(mod, 'parity_traces', None)
        if fn is None:
            continue
        try:
            items = fn(chk.rng.sub(modname), 400 if chk.thorough else 40)
        except Exception as e:
            chk.broken_obligation('parity_traces of %s failed: %r' % (modname, e))
            continue
        for kind, scen, ts, ta in items:
            kid = kinds.setdefault(kind, len(kinds) + 1)
            try:
                cases.append('(PGen %s %s %s)' % (cN(kid), clist([pv(x) for x in ts]), clist([pv(x) for x in ta])))
            except TypeError as e:
                chk.broken_obligation('unprintable trace from %s: %r' % (modname, e))
                continue
            meta.append((kind, scen))
            chk.count(1, (kind, repr(ts)[:200]) if len(ts) >= 3 else None,
                      {'pair': kind, 'scenario': repr(scen)[:160]} if len(meta) % 50 == 1 else None)
            chk.dist('pair ' + kind)
    return cases, meta


def model_pair_cases(chk):
    """Pairs for which the owning package has a shared Coq model and a typed pair case: `parity_model_cases(rng, n)`
    returns {'kind', 'imports', 'case_type', 'fn', 'terms', 'meta'}; fn gives bit 1 = a member disagrees with the
    model, bit 2 = the two members differ.  Returns [(kind, scenario, code)] for the nonzero codes."""
    out = []
    for modname in ('props.c07',):
        try:
            mod = importlib.import_module(modname)
        except Exception:
            continue
        fn = getattr(mod, 'parity_model_cases', None)
        if fn is None:
            continue
        try:
            spec = fn(chk.rng.sub(modname + '.model'), 400 if chk.thorough else 40)
        except Exception as e:
            chk.broken_obligation('parity_model_cases of %s failed: %r' % (modname, e))
            continue
        kind = spec['kind']
        codes, errors = coqio.eval_cases('c14_' + kind.replace('-', '_'), spec['imports'], '', spec['case_type'],
                                         spec['terms'], spec['fn'], shard=40)
        chk.traces_validated += len(spec['terms'])
        for e in errors:
            chk.broken_obligation('case evaluation failed (%s): %s' % (kind, e))
        for i, m in enumerate(spec['meta']):
            chk.count(1, (kind, m['key']) if m.get('key') else None,
                      {'pair': kind, 'scenario': m['scenario'][:160]} if i % 50 == 0 else None)
            chk.dist('pair ' + kind)
        out.extend((kind, spec['meta'][i]['scenario'], code) for i, code in sorted(codes.items()))
    return out


def shrunk(kind, scen):
    """Ask the owning package for a smaller scenario with the same symptom; Coq confirms that its traces differ."""
    for modname in ('props.c07',):
        try:
            fn = getattr(importlib.import_module(modname), 'parity_shrink', None)
            r = fn(kind, scen) if fn else None
            if r is None:
                continue
            scen2, ts, ta = r
            term = '(PGen 0 %s %s)' % (clist([pv(x) for x in ts]), clist([pv(x) for x in ta]))
            codes, errors = coqio.eval_cases('c14_shr', IMPORTS, '', 'c14case', [term], 'c14_eval', shard=1)
            if not errors and codes.get(0, 0) & 2:
                return scen2
        except Exception:
            pass
    return scen


def run(chk):
    chk.rule = ('scripted scenarios (client packets valid and malformed, server API calls, transport losses) executed on the '
                'threaded and on the asyncio member of each pair; traces compared directly in Coq after canonicalisation '
                '(deterministic session ids); non-trivial = scenario whose trace has >= 3 effects; distinct by normalised trace; '
                'pub/sub pair additionally on cluster histories (2-3 hosts) whose connect / event / disconnect handlers (functions '
                'and class-based namespaces) call enter_room / leave_room / rooms / emit / close_room / disconnect, clients ending '
                'by DISCONNECT packet, transport loss and disconnect(): verbatim traces (published messages, packets per client, '
                'handler calls, API results) compared in Coq, and typed traces compared with Cluster/Handlers.v and with each other')
    chk.trusted_base = ['Coq 8.16.1 kernel + vm_compute', 'the drivers of the owning properties (see their evidence)',
                        'handlers executed inline (async_handlers disabled); background handlers joined before comparison']
    chk.assumptions = ['pairs covered directly: Server/AsyncServer (with Manager/AsyncManager underneath); further pairs are '
                       'added as the packages owning their drivers export parity_traces (Client, PubSubManager, Namespace, '
                       'SimpleClient); every pair is additionally compared with one shared model in its own property']
    chk.prove()
    c1, m1 = server_cases(chk, 600 if chk.thorough else 60)
    c2, m2 = generic_cases(chk)
    cases, meta = c1 + c2, m1 + m2
    codes, errors = coqio.eval_cases('c14', IMPORTS, '', 'c14case', cases, 'c14_eval', shard=40)
    chk.traces_validated = len(cases)
    for e in errors:
        chk.broken_obligation('case evaluation failed: ' + e)
    results = [(meta[idx][0], meta[idx][1], code) for idx, code in sorted(codes.items())]
    results += model_pair_cases(chk)
    seen = set()
    for kind, scen, code in results:
        if code & 2:
            sig = 'parity-%s' % kind
            if sig in seen:
                continue
            seen.add(sig)
            if isinstance(scen, str):
                scen = shrunk(kind, scen)
            chk.violation(sig, 'the threaded and the asyncio member of the pair behave differently on this scenario',
                          {'pair': kind, 'py': repr(scen)})
        elif code & 1 and ('corr', kind) not in seen:
            seen.add(('corr', kind))
            chk.broken_obligation('correspondence with the model broken for pair %s' % kind)
            chk.violation('c14-%s-correspondence' % kind, 'model and implementation disagree', {'pair': kind, 'py': repr(scen)},
                          no_input=True)


def replay(chk, data):
    import ast
    r = data['replay']
    if r.get('pair') == 'server':
        cfg, ops = ast.literal_eval(r['py'])
        rs, _ = srv.run_history(cfg, ops, 'sync')
        ra, _ = srv.run_history(cfg, ops, 'async')
        bad = 0
        for o, (es, _), (ea, _) in zip(ops, rs, ra):
            mark = '' if es == ea else '   <-- differs'
            bad += bool(mark)
            print(o, '\n   sync :', es, '\n   async:', ea, mark)
        return 1 if bad else 0
    if str(r.get('pair', '')).startswith('pubsub-handlers'):
        scen = ast.literal_eval(r['py'])
        return importlib.import_module('props.c07').parity_replay(r['pair'], scen)
    print(r)
    return 1
