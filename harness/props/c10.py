"""C10 - client reconnection: only after accidental loss, bounded back-off and attempts.

Tie: hand model Reconnect/Reconnect.v, correspondence on fault histories run on the REAL
socketio.Client / socketio.AsyncClient over the fake engine.io clients of
drivers/fake_eio_client.py; the Coq boolean checker of Check/C10Check.v evaluates the property on
what the implementation did (waits, transport connection attempts, handler calls, final state)."""
import asyncio
import itertools
import signal
from fractions import Fraction

from vt import coqio
from vt.coqio import cbool, clist, cnat, copt
from drivers.fake_eio_client import FakeEio, FakeAsyncEio, AsyncioShim, Runaway

IMPORTS = ('From Coq Require Import List ZArith QArith.\nImport ListNotations.\n'
           'From VT Require Import Base.PyVal Reconnect.Reconnect Check.C10Check.')
SIG_STALE = 'stale-reconnect-task-after-failed-effort'
SIG_WINDOW = 'loss-in-success-window-thread'

NS_NAMES = ['/', '/n1', '/n2']
TRANSPORTS = [None, ['polling'], ['websocket'], ['polling', 'websocket']]


# ------------------------------------------------------------------ values <-> tokens
def ns_name(n):
    return NS_NAMES[n]


def ns_tok(name):
    return NS_NAMES.index(name) if name in NS_NAMES else 99


def tok_int(s, prefix):
    try:
        return int(str(s)[len(prefix):]) if str(s).startswith(prefix) else 99
    except ValueError:
        return 99


def args_py(a):
    u, h, au, t, pth = a
    return dict(url='http://host%d' % u, headers={'X-H': 'h%d' % h}, auth={'token': 't%d' % au},
                transports=TRANSPORTS[t % 4], socketio_path='path%d' % pth)


def url_tok(v):
    return tok_int(v, 'http://host')


def hdr_tok(v):
    return tok_int(v.get('X-H'), 'h') if isinstance(v, dict) and len(v) == 1 else 99


def auth_tok(v):
    return tok_int(v.get('token'), 't') if isinstance(v, dict) and len(v) == 1 else 99


def tr_tok(v):
    return TRANSPORTS.index(v) if v in TRANSPORTS else 99


def path_tok(v):
    return tok_int(v, 'path')


def as_fraction(x):
    if isinstance(x, (list, tuple)):
        return Fraction(x[0], x[1])
    return Fraction(x)      # exact for int and float


def num(x):
    """Fraction -> the Python number handed to the client: int when integral, else float
    (dyadic, so the float is exact)."""
    f = as_fraction(x)
    if f.denominator == 1:
        return int(f)
    v = f.numerator / f.denominator
    assert Fraction(v) == f, 'parameter %r is not exactly representable' % (x,)
    return v


# ------------------------------------------------------------------ log -> effects
def canon_log(entries):
    """Raw log entries of the fakes / recorders -> canonical effect tuples."""
    out = []
    for e in entries:
        k = e[0]
        if k == 'random':
            out.append(('random',))
        elif k == 'wait':
            try:
                q = Fraction(e[1])
            except (TypeError, ValueError, OverflowError):
                out.append(('junk', 'wait %r' % (e[1],)))
                continue
            out.append(('wait', q.numerator, q.denominator))
        elif k == 'eio_connect':
            out.append(('eio_connect', url_tok(e[1]), hdr_tok(e[2]), tr_tok(e[3]), path_tok(e[4])))
        elif k == 'send_connect':
            out.append(('send_connect', ns_tok(e[1]), auth_tok(e[2])))
        elif k == 'send_disconnect':
            out.append(('send_disconnect', ns_tok(e[1])))
        elif k == 'eio_disconnect':
            out.append(('eio_disconnect', bool(e[1])))
        elif k == 'h':
            out.append(('h', e[1], ns_tok(e[2]), e[3]))
        elif k in ('spawn', 'task_end'):
            out.append((k, e[1]))
        elif k == 'lost':
            out.append(('lost',))
        elif k == 'result':
            out.append(('result', e[1]))
        elif k == 'send_event':
            out.append(('send_event', ns_tok(e[1]), e[2] if isinstance(e[2], int) and e[2] >= 0 else 999))
        elif k == 'emit':
            out.append(('emit', bool(e[1])))
        elif k == 'callback':
            out.append(('callback', e[1]))
        else:
            out.append(('junk', repr(e)[:60]))
    return out


REASONS = {'client disconnect': 'RClient', 'server disconnect': 'RServer', 'transport error': 'RTransport'}
HNAMES = {'connect': 'HConnect', 'disconnect': 'HDisconnect', 'connect_error': 'HConnectError',
          '__disconnect_final': 'HFinal'}


def cq(n, d=1):
    f = Fraction(n, d)
    return '((%d) # %d)' % (f.numerator, f.denominator)


def eff_term(e):
    k = e[0]
    if k == 'random':
        return 'FRandom'
    if k == 'wait':
        return '(FWait %s)' % cq(e[1], e[2])
    if k == 'eio_connect':
        return '(FEioConnect %d %d %d %d)' % e[1:]
    if k == 'send_connect':
        return '(FSendConnect %d %d)' % e[1:]
    if k == 'send_disconnect':
        return '(FSendDisconnect %d)' % e[1]
    if k == 'eio_disconnect':
        return '(FEioDisconnect %s)' % cbool(e[1])
    if k == 'h':
        return '(FHandler %s %d %s)' % (HNAMES[e[1]], e[2], copt(REASONS.get(e[3])) if e[3] is not None else 'None')
    if k == 'spawn':
        return '(FSpawn %d)' % e[1]
    if k == 'task_end':
        return '(FTaskEnd %d Reconnected)' % e[1]       # the outcome is ghost: ignored by eff_eqb
    if k == 'lost':
        return 'FLost'
    if k == 'send_event':
        return '(FSendEvent %d %d)' % e[1:]
    if k == 'emit':
        return '(FEmit %s)' % cbool(e[1])
    if k == 'callback':
        return '(FCallback %d)' % e[1]
    if k == 'result':
        return '(FResult %s)' % {'ok': 'ROk', 'connection_error': 'RConnectionError',
                                 'value_error': 'RValueError'}.get(e[1], 'ROther')
    return 'FOther'


def outcome_term(o):
    if o == 'err':
        return 'OConnErr'
    return '(OReplies %s)' % clist([{'a': 'RAccept', 'r': 'RRefuse', 's': 'RSilent'}[c] for c in o])


def args_term(a):
    return '(mkArgs %d %d %d %d %d)' % tuple(a)


def event_term(ev):
    k = ev[0]
    if k == 'connect':
        return '(Connect %s %s %s)' % (args_term(ev[1]), clist([cnat(n) for n in ev[2]]), outcome_term(ev[3]))
    if k == 'loss':
        return '(Loss %s)' % cq(*ev[1])
    if k == 'disconnect':
        return 'Disconnect'
    if k == 'sdisc':
        return '(ServerDisconnect %d)' % ev[1]
    if k == 'sclose':
        return 'ServerClose'
    if k == 'shutdown':
        return 'Shutdown'
    if k == 'sigint':
        return 'Sigint'
    if k == 'timeout':
        return '(Timeout %d %s %s %s)' % (ev[1], outcome_term(ev[2]), cq(*ev[3]), cbool(ev[4]))
    if k == 'emitcb':
        return '(EmitCb %d)' % ev[1]
    if k == 'sack':
        return '(ServerAck %d %d)' % (ev[1], ev[2])
    raise ValueError(ev)


def params_term(p, fixed):
    return '(mkParams %s (%d)%%Z %s %s %s %s)' % (cbool(p['reconnection']), p['attempts'], cq(*p['delay']),
                                                cq(*p['delay_max']), cq(*p['rf']), cbool(fixed))


def state_term(fs):
    return '(mkObs %s %s %s %s %s %s %s %d %s %s)' % (
        cbool(fs['connected']), {'disconnected': 'EDisc', 'connected': 'EConn', 'disconnecting': 'EDisconnecting'}[fs['est']],
        clist([cnat(n) for n in fs['nss']]), args_term(fs['args']), clist([cnat(n) for n in fs['cns']]),
        copt(fs['rtask'], cnat), cbool(fs['aflag']), fs['rcl'], clist([cnat(i) for i in fs['live']]),
        clist(['(%s, (%s, %s))' % (cnat(n), cnat(nxt), clist(['(%s, %s)' % (cnat(i), cnat(k)) for i, k in ent]))
               for n, nxt, ent in fs['cbs']]))


def case_term(sc, obs, fixed):
    return '(Case %s %s %s %s)' % (
        params_term(sc['params'], fixed), clist([event_term(e) for e in obs['events']]),
        clist([clist([eff_term(x) for x in es]) for es in obs['effects']]), state_term(obs['final']))


# ------------------------------------------------------------------ running a scenario
class RandShim:
    """Replaces the name `random` inside the module under test."""

    def __init__(self, log):
        self.log = log
        self.queue = []

    def random(self):
        self.log.append(('random',))
        if self.queue:
            return self.queue.pop(0)
        self.log.append(('unscripted_random',))
        return 0.5


class HookLogger:
    """client.logger: silent; a call made while `armed` and the client is connected is the
    switch point of the thread race (between connect() returning and `_reconnect_task = None`)."""

    def __init__(self):
        self.armed = None

    def _log(self, *a, **k):
        f = self.armed
        if f is not None:
            f()

    info = warning = error = exception = debug = critical = _log

    def setLevel(self, *a):
        pass


def _client_kwargs(p):
    return dict(reconnection=p['reconnection'], reconnection_attempts=p['attempts'],
                reconnection_delay=num(p['delay']), reconnection_delay_max=num(p['delay_max']),
                randomization_factor=num(p['rf']), handle_sigint=False, logger=HookLogger())


def _register(client, log):
    for name in NS_NAMES:
        for ev in ('connect', 'disconnect', 'connect_error', '__disconnect_final'):
            def h(*a, _ev=ev, _n=name):
                log.append(('h', _ev, _n, a[0] if (_ev == 'disconnect' and a) else None))
            client.on(ev, h, namespace=name)


def _make_cb(log, k):
    def cb(*a):
        log.append(('callback', k))
    cb.k = k
    return cb


def _final_state(client, fake, live_ids, task_id_of):
    from socketio import base_client
    ab = client._reconnect_abort
    return {
        'connected': bool(client.connected), 'est': fake.state,
        'nss': [ns_tok(n) for n in client.namespaces],
        'args': [url_tok(client.connection_url) if client.connection_url is not None else 0,
                 hdr_tok(client.connection_headers) if client.connection_headers is not None else 0,
                 auth_tok(client.connection_auth) if client.connection_auth is not None else 0,
                 tr_tok(client.connection_transports) if client.socketio_path is not None else 0,
                 path_tok(client.socketio_path) if client.socketio_path is not None else 0],
        'cns': [ns_tok(n) for n in client.connection_namespaces],
        'rtask': None if client._reconnect_task is None else task_id_of(client._reconnect_task),
        'aflag': bool(ab.flag) if ab is not None else False,
        'rcl': sum(1 for c in base_client.reconnecting_clients if c is client),
        'live': live_ids,
        'cbs': _callbacks_state(client),
    }


def _callbacks_state(client):
    """self.callbacks -> [(namespace token, next value of the id generator, [(id, callback number)])]."""
    out = []
    for ns, tab in client.callbacks.items():
        gen = tab.get(0)
        try:
            nxt = int(repr(gen)[len('count('):-1])
        except (TypeError, ValueError):
            nxt = 999
        out.append((ns_tok(ns), nxt, [(i if isinstance(i, int) else 999, getattr(cb, 'k', 999))
                                      for i, cb in tab.items() if i != 0]))
    return out


def run_sync(sc):
    """Run a scenario on the real socketio.Client.  Returns the observation."""
    import socketio
    from socketio import base_client, client as client_mod
    from socketio import exceptions as sio_exc
    p = sc['params']
    client = socketio.Client(**_client_kwargs(p))
    fake = FakeEio()
    fake.attach(client)
    log = fake.log
    _register(client, log)
    rnd = RandShim(log)
    old_random, client_mod.random = client_mod.random, rnd
    old_osh = base_client.original_signal_handler
    effects, events, pre = [], [], []
    ncb = [0]
    def do_event(ev):
        k = ev[0]
        if k == 'connect':
            fake.next_outcome = ev[3]
            kw = args_py(ev[1])
            try:
                client.connect(kw.pop('url'), namespaces=[ns_name(n) for n in ev[2]], **kw)
                log.append(('result', 'ok'))
            except sio_exc.ConnectionError:
                log.append(('result', 'connection_error'))
            except ValueError:
                log.append(('result', 'value_error'))
        elif k == 'loss':
            rnd.queue = [num(ev[1])]
            fake.transport_error()
        elif k == 'disconnect':
            client.disconnect()
        elif k == 'sdisc':
            from socketio import packet
            fake.deliver(client.packet_class(packet.DISCONNECT, namespace=ns_name(ev[1])).encode())
        elif k == 'sclose':
            fake.server_close()
        elif k == 'shutdown':
            client.shutdown()
        elif k == 'sigint':
            base_client.original_signal_handler = lambda s, f: None
            base_client.signal_handler(signal.SIGINT, None)
        elif k == 'emitcb':
            cb = _make_cb(log, ncb[0])
            try:
                client.emit('ev', namespace=ns_name(ev[1]), callback=cb)
                ncb[0] += 1
                log.append(('emit', True))
            except sio_exc.BadNamespaceError:
                log.append(('emit', False))
        elif k == 'sack':
            from socketio import packet
            fake.deliver(client.packet_class(packet.ACK, namespace=ns_name(ev[1]), id=ev[2], data=[]).encode())
        elif k == 'timeout':
            live = fake.live_tasks()
            fired = [False]
            if ev[1] < len(live):
                fake.next_outcome = ev[2]
                rnd.queue = [num(ev[3])]
                if ev[4] and not client.connected:
                    # switch point: the first logger call after THIS attempt made the client connected
                    def hook():
                        if client.connected and not fired[0]:
                            fired[0] = True
                            fake.transport_error()
                    client.logger.armed = hook
                fake.drive(live[ev[1]])
                client.logger.armed = None
            if ev[4] and not fired[0]:
                ev[4] = False           # no switch point was reached: the race did not happen
        fake.run_new_tasks()
        fake.wake_flagged()

    try:
        for ev in sc['events']:
            ev = list(ev)
            start = len(log)
            fake.ticks = 0
            stop = False
            t = client._reconnect_task
            pre.append('none' if t is None else 'stale' if getattr(t, 'done', False) else 'live')
            try:
                do_event(ev)
            except Runaway:
                stop = True
            rnd.queue = []
            fake.next_outcome = None
            effects.append(canon_log(log[start:]))
            events.append(ev)
            if stop or any(e[0] in ('runaway', 'task_hung') for e in log[start:]):
                break
        final = _final_state(client, fake, [t.tid for t in fake.live_tasks()],
                             lambda t: t.tid if hasattr(t, 'tid') else 99)
    finally:
        client_mod.random = old_random
        base_client.original_signal_handler = old_osh
        fake.kill()
        while client in base_client.reconnecting_clients:
            base_client.reconnecting_clients.remove(client)
    return {'events': events, 'effects': effects, 'final': final, 'pre': pre}


async def _run_async(sc):
    import socketio
    from socketio import base_client, async_client as client_mod
    from socketio import exceptions as sio_exc
    p = sc['params']
    client = socketio.AsyncClient(**_client_kwargs(p))
    fake = FakeAsyncEio()
    fake.attach(client)
    log = fake.log
    _register(client, log)
    rnd = RandShim(log)
    old_random, client_mod.random = client_mod.random, rnd
    old_asyncio, client_mod.asyncio = client_mod.asyncio, AsyncioShim(fake)
    old_osh = base_client.original_signal_handler
    effects, events, pre = [], [], []
    ncb = [0]
    async def do_event(ev):
        k = ev[0]
        if k == 'connect':
            fake.next_outcome = ev[3]
            kw = args_py(ev[1])
            try:
                await client.connect(kw.pop('url'), namespaces=[ns_name(n) for n in ev[2]], **kw)
                log.append(('result', 'ok'))
            except sio_exc.ConnectionError:
                log.append(('result', 'connection_error'))
            except ValueError:
                log.append(('result', 'value_error'))
        elif k == 'loss':
            rnd.queue = [num(ev[1])]
            await fake.transport_error()
        elif k == 'disconnect':
            await client.disconnect()
        elif k == 'sdisc':
            from socketio import packet
            await fake.deliver(client.packet_class(packet.DISCONNECT, namespace=ns_name(ev[1])).encode())
        elif k == 'sclose':
            await fake.server_close()
        elif k == 'shutdown':
            await client.shutdown()
        elif k == 'sigint':
            base_client.original_signal_handler = lambda s, f: None
            base_client.signal_handler(signal.SIGINT, None)
        elif k == 'emitcb':
            cb = _make_cb(log, ncb[0])
            try:
                await client.emit('ev', namespace=ns_name(ev[1]), callback=cb)
                ncb[0] += 1
                log.append(('emit', True))
            except sio_exc.BadNamespaceError:
                log.append(('emit', False))
        elif k == 'sack':
            from socketio import packet
            await fake.deliver(client.packet_class(packet.ACK, namespace=ns_name(ev[1]), id=ev[2], data=[]).encode())
        elif k == 'timeout':
            ev[4] = False               # no switch point between awaits in the asyncio client
            live = fake.live_tasks()
            if ev[1] < len(live):
                fake.next_outcome = ev[2]
                rnd.queue = [num(ev[3])]
                gate = fake.parked.get(live[ev[1]])
                if gate is not None and not gate.done():
                    gate.set_result(False)
        await fake.settle()

    try:
        for ev in sc['events']:
            ev = list(ev)
            start = len(log)
            fake.ticks = 0
            stop = False
            t = client._reconnect_task
            pre.append('none' if t is None else 'stale' if (hasattr(t, 'done') and t.done()) else 'live')
            try:
                await do_event(ev)
            except Runaway:
                stop = True
            rnd.queue = []
            fake.next_outcome = None
            effects.append(canon_log(log[start:]))
            events.append(ev)
            if stop or any(e[0] in ('runaway', 'not_quiescent') for e in log[start:]):
                break
        final = _final_state(client, fake, [t.tid for t in fake.live_tasks()],
                             lambda t: getattr(t, 'tid', 99))
    finally:
        client_mod.random = old_random
        client_mod.asyncio = old_asyncio
        base_client.original_signal_handler = old_osh
        await fake.kill()
        while client in base_client.reconnecting_clients:
            base_client.reconnecting_clients.remove(client)
    return {'events': events, 'effects': effects, 'final': final, 'pre': pre}


def run_async_many(scs):
    async def main():
        out = []
        for sc in scs:
            out.append(await _run_async(sc))
        return out
    return asyncio.run(main())


def run_async(sc):
    return run_async_many([sc])[0]


# ------------------------------------------------------------------ pre-state snapshots / classifier
def classify(sc, kind, obs, code):
    """Structural signature of a property violation (code has bit 2)."""
    clauses = [c for c in range(2, 10) if code & (1 << c)]
    if clauses == [8]:
        live = []
        for i, (ev, es) in enumerate(zip(obs['events'], obs['effects'])):
            had = bool(live)
            for e in es:
                if e[0] == 'spawn':
                    live.append(e[1])
                elif e[0] == 'task_end' and e[1] in live:
                    live.remove(e[1])
            if sc['params']['reconnection'] and ('lost',) in es and not live:
                if ev[0] == 'timeout' and ev[4] and had:
                    return SIG_WINDOW, i
                if ev[0] == 'loss' and obs['pre'][i] == 'stale':
                    return SIG_STALE, i
                return 'no-effort-after-accidental-loss', i
    if 9 in clauses:
        return 'callbacks-survive-reconnection' + ('' if clauses == [9] else '+' + '+'.join(
            'c%d' % c for c in clauses if c != 9)), None
    names = {2: 'delay', 3: 'attempts', 4: 'only-accidental', 5: 'abort', 6: 'single-effort', 7: 'same-parameters',
             8: 'retry'}
    return 'c10-' + '+'.join(names[c] for c in clauses or [8]), None


def run_one(sc, kind):
    return run_sync(sc) if kind == 'sync' else run_async(sc)


def detect_variant():
    """Which `_reconnect_task = None` placement does the tree under test have?  (model parameter
    `fixed`).  Decided by one probe on each real class; the correspondence then checks every case
    against the chosen variant."""
    probe = {'params': {'reconnection': True, 'attempts': 1, 'delay': [1, 1], 'delay_max': [5, 1], 'rf': [0, 1]},
             'events': [['connect', [1, 1, 1, 0, 1], [0], 'a'], ['loss', [1, 2]], ['timeout', 0, 'err', [1, 2], False]]}
    res = []
    for kind in ('sync', 'async'):
        o = run_one(probe, kind)
        res.append(o['final']['rtask'] is None and not o['final']['live'])
    return res


# ------------------------------------------------------------------ generators
DELAYS = [[1, 1], [1, 2], [2, 1], [1, 4], [3, 2], [3, 1]]
DMAXS = [[5, 1], [1, 1], [4, 1], [1, 2], [3, 1], [8, 1]]
RFS = [[1, 2], [0, 1], [1, 4], [1, 1], [2, 1], [1, 8]]
ATTEMPTS = [0, 1, 2, 3, 5]
RS = [[0, 1], [1, 4], [1, 2], [3, 4], [7, 8], [1, 8], [63, 64], [1, 64]]


def gen_params(rng, reconnection=True):
    return {'reconnection': reconnection, 'attempts': rng.choice(ATTEMPTS), 'delay': rng.choice(DELAYS),
            'delay_max': rng.choice(DMAXS), 'rf': rng.choice(RFS)}


def param_grid(rng, n):
    pts = []
    seen = set()
    while len(pts) < n:
        p = gen_params(rng)
        k = repr(p)
        if k not in seen:
            seen.add(k)
            pts.append(p)
    # the defaults of the class and the corners are always in
    pts[0] = {'reconnection': True, 'attempts': 0, 'delay': [1, 1], 'delay_max': [5, 1], 'rf': [1, 2]}
    pts[1] = {'reconnection': True, 'attempts': 3, 'delay': [1, 4], 'delay_max': [1, 2], 'rf': [2, 1]}
    return pts


def gen_args(rng):
    return [rng.randrange(1, 4), rng.randrange(1, 4), rng.randrange(1, 4), rng.randrange(0, 4), rng.randrange(1, 4)]


def gen_nss(rng):
    return rng.choice([[0], [0], [1], [0, 1], [1, 0], [0, 1, 2], [2, 1], [1, 2]])


def fail_outcome(rng, nss, sym):
    """sym: 'E' transport-level failure, 'R' namespace refusal / silence."""
    if sym == 'E':
        return 'err'
    o = ['a'] * len(nss)
    bad = rng.randrange(len(nss))
    o[bad] = rng.choice('rrs')
    for j in range(len(nss)):
        if j != bad and rng.random() < 0.25:
            o[j] = rng.choice('rs')
    return ''.join(o)


def ok_outcome(nss):
    return 'a' * len(nss)


def structured(rng, params, pattern, abort_at, abort_kind, cause, after, race=False):
    """One history: connect; cause of the loss; the effort following `pattern` (E/R failures, O
    success) with the abort at back-off wait number `abort_at`; then `after`."""
    args, nss = gen_args(rng), gen_nss(rng)
    evs = [['connect', args, nss, ok_outcome(nss)]]
    if rng.random() < 0.15:
        evs.insert(0, ['connect', gen_args(rng), gen_nss(rng), rng.choice(['err', 'r', 's'])])

    def r():
        return rng.choice(RS)

    def cb_ops(prob):
        # emits with a callback / ACKs from the server: before the loss, during the back-off
        # (emit raises, ACK is not delivered), after the reconnection (ids must restart at 1)
        while rng.random() < prob:
            if rng.random() < 0.65:
                evs.append(['emitcb', rng.choice(nss + nss + [rng.randrange(3)])])
            else:
                evs.append(['sack', rng.choice(nss + [rng.randrange(3)]), rng.choice([1, 1, 2, 0, 3])])
            prob *= 0.7

    cb_ops(0.6)
    if cause == 'loss':
        evs.append(['loss', r()])
    elif cause == 'disconnect':
        evs.append(['disconnect'])
    elif cause == 'sdisc':
        for n in rng.sample(nss, len(nss)):
            evs.append(['sdisc', n])
    elif cause == 'sclose':
        evs.append(['sclose'])
    n_att = 0
    live = cause == 'loss' and params['reconnection']
    cb_ops(0.25)
    for k, sym in enumerate(pattern):
        if abort_at is not None and k == abort_at:
            evs.append([abort_kind])
            live = False
        if sym == 'O':
            evs.append(['timeout', 0, ok_outcome(nss), r(), race and rng.random() < 0.7])
            if live:
                live = False
                n_att = 0
                cb_ops(0.6)
                if k + 1 < len(pattern):          # a further loss right after the reconnection
                    evs.append(['loss', r()])
                    live = params['reconnection']
        else:
            evs.append(['timeout', 0, fail_outcome(rng, nss, sym), r(), False])
            cb_ops(0.1)
            if live:
                n_att += 1
                if params['attempts'] and n_att >= params['attempts']:
                    live = False
                    n_att = 0
                    if k + 1 < len(pattern):      # gave up: the application connects again, new loss
                        if rng.random() < 0.5:
                            args, nss = gen_args(rng), gen_nss(rng)
                        evs.append(['connect', args, nss, ok_outcome(nss)])
                        evs.append(['loss', r()])
                        live = params['reconnection']
    if abort_at is not None and abort_at >= len(pattern):
        evs.append([abort_kind])
    for a in after:
        if a == 'connect':
            if rng.random() < 0.5:
                args, nss = gen_args(rng), gen_nss(rng)
            evs.append(['connect', args, nss, ok_outcome(nss)])
        elif a == 'loss':
            evs.append(['loss', r()])
        elif a == 'timeout_ok':
            evs.append(['timeout', 0, ok_outcome(nss), r(), False])
        elif a == 'timeout_err':
            evs.append(['timeout', 0, 'err', r(), False])
        else:
            evs.append([a])
        cb_ops(0.3)
    return {'params': params, 'events': evs}


def random_walk(rng, params, n):
    evs = []
    args, nss = gen_args(rng), gen_nss(rng)
    for _ in range(n):
        x = rng.random()
        if x < 0.2:
            if rng.random() < 0.4:
                args, nss = gen_args(rng), gen_nss(rng)
            o = ok_outcome(nss) if rng.random() < 0.75 else fail_outcome(rng, nss, rng.choice('ER'))
            evs.append(['connect', args, nss, o])
        elif x < 0.4:
            evs.append(['loss', rng.choice(RS)])
        elif x < 0.7:
            o = ok_outcome(nss) if rng.random() < 0.3 else fail_outcome(rng, nss, rng.choice('EER'))
            evs.append(['timeout', rng.choice([0, 0, 0, 0, 1]), o, rng.choice(RS), rng.random() < 0.15])
        elif x < 0.76:
            evs.append(['disconnect'])
        elif x < 0.84:
            evs.append(['sdisc', rng.choice(nss + [rng.randrange(3)])])
        elif x < 0.88:
            evs.append(['sclose'])
        elif x < 0.94:
            evs.append(['shutdown'])
        elif x < 0.96:
            evs.append(['sigint'])
        if rng.random() < 0.35:
            if rng.random() < 0.6:
                evs.append(['emitcb', rng.choice(nss + [rng.randrange(3)])])
            else:
                evs.append(['sack', rng.choice(nss + [rng.randrange(3)]), rng.choice([1, 1, 2, 0, 3])])
    return {'params': params, 'events': evs}


def all_patterns(maxlen, alphabet='ERO'):
    for n in range(1, maxlen + 1):
        for t in itertools.product(alphabet, repeat=n):
            yield ''.join(t)


def scenarios(rng, thorough):
    """Yield (label, scenario)."""
    maxlen = 7 if thorough else 4
    # (0) corpus: the minimal witnesses of the known findings come first (their replay files)
    dflt = {'reconnection': True, 'attempts': 1, 'delay': [1, 1], 'delay_max': [5, 1], 'rf': [1, 2]}
    a0 = [1, 1, 1, 0, 1]
    yield 'corpus', {'params': dflt, 'events': [
        ['connect', a0, [0], 'a'], ['loss', [1, 4]], ['timeout', 0, 'err', [1, 2], False],
        ['connect', a0, [0], 'a'], ['loss', [3, 4]]]}
    yield 'corpus', {'params': dict(dflt, attempts=0), 'events': [
        ['connect', a0, [0], 'a'], ['loss', [1, 4]], ['shutdown'],
        ['connect', a0, [0], 'a'], ['loss', [3, 4]]]}
    yield 'corpus', {'params': dict(dflt, attempts=0), 'events': [
        ['connect', a0, [0], 'a'], ['loss', [1, 4]], ['timeout', 0, 'a', [1, 2], True]]}
    yield 'corpus', {'params': dict(dflt, attempts=0), 'events': [       # edge: connect() during the back-off
        ['connect', a0, [0], 'a'], ['loss', [1, 4]], ['connect', a0, [0], 'a'], ['shutdown'],
        ['timeout', 0, 'a', [1, 2], False]]}
    yield 'corpus', {'params': dict(dflt, attempts=0), 'events': [      # ids restart, stale ACK ignored
        ['connect', a0, [0, 1], 'aa'], ['emitcb', 0], ['emitcb', 0], ['emitcb', 1], ['loss', [1, 4]],
        ['emitcb', 0], ['sack', 0, 1], ['timeout', 0, 'aa', [1, 2], False], ['sack', 0, 1], ['emitcb', 0],
        ['sack', 0, 1], ['sack', 1, 1]]}
    grid = param_grid(rng, 60 if thorough else 12)
    pats = list(all_patterns(4)) if not thorough else \
        list(all_patterns(5)) + [''.join(rng.choice('EERO') for _ in range(rng.choice([6, 7]))) for _ in range(900)]
    # (a) every pattern x parameter points, accidental loss, abort position drawn
    per_pat = 12 if not thorough else 10
    for pat in pats:
        for p in rng.sample(grid, min(per_pat, len(grid))):
            ab = rng.choice([None, None, None] + list(range(len(pat) + 1)))
            after = rng.choice([[], ['connect', 'loss'], ['connect', 'loss', 'timeout_ok'], ['loss'],
                                ['connect', 'loss', 'timeout_err', 'timeout_ok', 'loss']])
            yield 'pattern', structured(rng, p, pat, ab, rng.choice(['shutdown', 'shutdown', 'sigint']), 'loss', after)
    # (b) every abort position for a few patterns
    for pat in [q for q in pats if len(q) <= maxlen and 'O' not in q[:-1]][:40 if not thorough else 200]:
        for ab in range(len(pat) + 1):
            p = rng.choice(grid)
            yield 'abort', structured(rng, p, pat, ab, 'shutdown', 'loss', rng.choice([[], ['connect', 'loss', 'timeout_ok']]))
    # (c) causes of loss
    for cause in ('disconnect', 'sdisc', 'sclose', 'loss-disabled', 'loss'):
        for p in grid:
            for pat in rng.sample(pats, 4 if not thorough else 10):
                q = dict(p)
                c = cause
                if cause == 'loss-disabled':
                    q['reconnection'] = False
                    c = 'loss'
                yield 'cause-' + cause, structured(rng, q, pat, None, 'shutdown', c,
                                                   rng.choice([['loss'], ['connect', 'loss', 'timeout_ok'], ['shutdown', 'loss']]))
    # (d) what happens after a failed effort: manual connect + second accidental loss
    for p in grid:
        for n in (1, 2, 3):
            q = dict(p, attempts=n)
            pat = 'E' * n if rng.random() < 0.5 else ''.join(rng.choice('ER') for _ in range(n))
            yield 'after-gave-up', structured(rng, q, pat, None, 'shutdown', 'loss',
                                              ['connect', 'loss', 'timeout_ok', 'loss', 'timeout_err'])
        yield 'after-abort', structured(rng, p, 'E', 1, 'shutdown', 'loss', ['connect', 'loss', 'timeout_ok'])
    # (e) thread race window: loss between a successful connect() and `_reconnect_task = None`
    for p in grid[:6 if not thorough else 30]:
        yield 'race', structured(rng, p, rng.choice(['O', 'EO', 'RO', 'EEO']), None, 'shutdown', 'loss',
                                 ['loss', 'timeout_ok'], race=True)
    # (f) random walks (connect / disconnect / shutdown at odd moments)
    for _ in range(2500 if thorough else 500):
        p = gen_params(rng, reconnection=rng.random() < 0.85)
        yield 'walk', random_walk(rng, p, rng.randrange(3, 14))


def event_key(sc, obs):
    ks = []
    for ev in obs['events']:
        k = ev[0]
        if k == 'connect':
            k += ':' + ('ok' if set(ev[3]) == {'a'} else 'err' if ev[3] == 'err' else 'ref')
        if k == 'timeout':
            k += ':' + ('ok' if set(ev[2]) == {'a'} else 'err' if ev[2] == 'err' else 'ref') + ('!' if ev[4] else '')
        ks.append(k)
    return tuple(ks)


def nontrivial(obs):
    return any(e[0] in ('lost', 'spawn', 'wait') or (e[0] == 'h' and e[1] == 'connect_error')
               for es in obs['effects'] for e in es)


# ------------------------------------------------------------------ the check
def evaluate(name, items, fixed_of):
    """items: list of (sc, kind, obs).  Returns (codes dict, errors)."""
    terms = [case_term(sc, obs, fixed_of[kind]) for sc, kind, obs in items]
    return coqio.eval_cases(name, IMPORTS, '', 'c10case', terms, 'c10_eval'), terms


def run_all(scs, kinds=('sync', 'async')):
    items = []
    if 'sync' in kinds:
        for sc in scs:
            items.append((sc, 'sync', run_sync(sc)))
    if 'async' in kinds:
        for sc, o in zip(scs, run_async_many(scs)):
            items.append((sc, 'async', o))
    return items


def run(chk):
    rng = chk.rng
    chk.rule = ('fault histories on the real Client and AsyncClient over the fake engine.io client: every pattern '
                'of attempt outcomes (transport failure / namespace refusal or silence / success) up to length 4 '
                '(thorough: 5, sampled to 7) x 12 (60) dyadic parameter points x abort positions x causes of loss '
                'x follow-ups, plus random walks over all events; a case is non-trivial when it contains a loss of '
                'a connected transport, a reconnect task, a back-off wait or a refused connection; emits with a '
                'callback and server ACKs are interleaved before the loss, during the back-off and after the '
                'reconnection; distinct by the '
                'sequence of event kinds with outcome classes (and client kind)')
    chk.trusted_base = [
        'Coq 8.16.1 kernel + vm_compute (case evaluation)',
        'hand model Reconnect/Reconnect.v (transcription of client.py/async_client.py reconnection code and of '
        'the engine.io client state contract)',
        'harness/drivers/fake_eio_client.py: fake engine.io clients written against engineio 4.14 client.py / '
        'async_client.py (state is still "connected" when a transport error is reported, "disconnecting" during '
        'disconnect() and on a CLOSE packet; send dropped unless connected; connect handler synchronous)',
        'the baton scheduler: a reconnect task only runs between two back-off waits while the controller waits; '
        'server answers to CONNECT packets arrive before connect() starts waiting',
        'socketio.packet.Packet is used by the fake to classify and build CONNECT/DISCONNECT packets',
        'harness/props/c10.py generators, canonicalisation (tokens for url/headers/auth/transports/path) and '
        'the Python->Gallina printer; floats are converted exactly (Fraction) and all injected numbers are dyadic']
    chk.assumptions = [
        'random.random() returns some r in [0,1) (C10_delay quantifies over every such r)',
        'engine.io calls the disconnect handler with state "connected" only for transport errors '
        '(engineio/client.py _read_loop_*), and with "disconnecting" for disconnect() and CLOSE',
        'handlers registered by the application do not raise and do not call back into the client',
        'asyncio granularity = thread granularity except for the switch point between connect() returning and '
        '`_reconnect_task = None` (events Timeout .. true), which exists in the threaded client only']
    chk.prove()

    fixed = detect_variant()
    fixed_of = {'sync': fixed[0], 'async': fixed[1]}
    chk.extra['variant'] = {k: ('fixed' if v else 'pinned') for k, v in fixed_of.items()}

    labelled = list(scenarios(rng, chk.thorough))
    scs = [sc for _, sc in labelled]
    items = run_all(scs)
    labels = [l for l, _ in labelled] * 2
    (codes, errors), terms = evaluate('c10', items, fixed_of)
    chk.traces_validated = len(items)
    for e in errors:
        chk.broken_obligation('case evaluation failed: ' + e)
    for idx, (sc, kind, obs) in enumerate(items):
        key = (kind,) + event_key(sc, obs) if nontrivial(obs) else None
        chk.count(1, key, {'client': kind, 'params': sc['params'], 'events': obs['events'],
                           'effects': [[list(e) for e in es] for es in obs['effects']][:4]} if idx % 997 == 3 else None)
        chk.dist('%s/%s' % (kind, labels[idx]))
        chk.dist('events=%d' % min(len(obs['events']), 12))
    disagree = []
    new_failing_input = False
    for idx, code in sorted(codes.items()):
        sc, kind, obs = items[idx]
        rep = {'client': kind, 'scenario': sc, 'fixed': fixed_of[kind], 'code': code}
        if code & 2:
            sig, at = classify(sc, kind, obs, code)
            if code & 1 and sig in (SIG_STALE, SIG_WINDOW):
                sig += '-outside-model'     # the model does not explain this run: not the known finding
            if sig not in (SIG_STALE, SIG_WINDOW):
                new_failing_input = True
            chk.violation(sig, 'the real %s violates C10 (clauses %s) at event %s of the history' % (
                'Client' if kind == 'sync' else 'AsyncClient',
                [c for c in range(2, 10) if code & (1 << c)], at), rep)
        elif code & 1:
            disagree.append((idx, rep))
    if disagree:
        for idx, rep in disagree[:3]:
            chk.broken_obligation('correspondence: model Reconnect.v and the real %s disagree on %r' % (
                rep['client'], rep['scenario']))
        chk.extra['disagreements'] = len(disagree)
        if not new_failing_input:
            new_failing_input = directed_search(chk, rng, [items[i] for i, _ in disagree[:20]], fixed_of)
        if not new_failing_input:
            chk.violation('c10-correspondence', 'model Reconnect/Reconnect.v and src/socketio/%s disagree' % (
                'client.py' if disagree[0][1]['client'] == 'sync' else 'async_client.py'),
                disagree[0][1], no_input=True)


def directed_search(chk, rng, bad_items, fixed_of):
    """The model and the code disagree: look for an input on which the PROPERTY fails on the code
    (neighbourhood of the disagreeing histories + 10x random walks)."""
    scs = []
    for sc, kind, obs in bad_items:
        evs = sc['events']
        for cut in range(1, len(evs) + 1):
            for tail in ([], [['timeout', 0, 'err', [1, 2], False]] * 3,
                         [['connect', [1, 1, 1, 0, 1], [0], 'a'], ['loss', [1, 4]], ['timeout', 0, 'a', [1, 2], False]],
                         [['shutdown'], ['timeout', 0, 'a', [1, 2], False]],
                         [['disconnect'], ['timeout', 0, 'a', [1, 2], False], ['loss', [1, 2]]]):
                scs.append({'params': sc['params'], 'events': evs[:cut] + tail})
    for _ in range(3000):
        scs.append(random_walk(rng, gen_params(rng, rng.random() < 0.85), rng.randrange(3, 14)))
    for p in param_grid(rng, 12):
        for pat in all_patterns(4):
            scs.append(structured(rng, p, pat, rng.choice([None, None, 0, 1, 2]), 'shutdown', 'loss',
                                  rng.choice([[], ['connect', 'loss', 'timeout_ok']])))
    items = run_all(scs)
    (codes, errors), terms = evaluate('c10search', items, fixed_of)
    hit = False
    for idx, code in sorted(codes.items()):
        if code & 2:
            sc, kind, obs = items[idx]
            sig, at = classify(sc, kind, obs, code)
            before = len(chk.violations) + len(chk.known_hits)
            chk.violation(sig, 'directed search: the real %s violates C10 (clauses %s) at event %s' % (
                kind, [c for c in range(2, 10) if code & (1 << c)], at),
                {'client': kind, 'scenario': sc, 'fixed': fixed_of[kind], 'code': code})
            if sig not in (SIG_STALE, SIG_WINDOW) and len(chk.violations) + len(chk.known_hits) > before:
                hit = True
    return hit


def replay(chk, data):
    rep = data['replay']
    if 'scenario' not in rep:
        print(rep)
        return 1
    sc, kind = rep['scenario'], rep.get('client', 'sync')
    obs = run_one(sc, kind)
    fixed = detect_variant()[0 if kind == 'sync' else 1]
    term = case_term(sc, obs, fixed)
    for ev, es in zip(obs['events'], obs['effects']):
        print(ev, '->', es)
    print('final', obs['final'])
    rc, out = coqio.eval_print('c10_replay', IMPORTS, '', ['c10_eval %s' % term, 'c10_explain %s' % term])
    print(out)
    first = out.split('\n')[0] if out else ''
    code_ok = first.strip().startswith('= 0')
    if not code_ok:
        import re
        m = re.search(r'=\s*(\d+)', out)
        code = int(m.group(1)) if m else -1
        print('code %d: %s' % (code, ', '.join(
            ['model/implementation disagree'] * (code & 1) +
            ['clause %d violated' % c for c in range(2, 10) if code > 0 and code & (1 << c)])))
        if code > 0 and code & 2:
            print('signature:', classify(sc, kind, obs, code)[0])
    return 0 if code_ok else 1


# ------------------------------------------------------------------ C14: Client vs AsyncClient parity
def _plain(x):
    """Canonical effect / state values -> str/int/bool/None/list/dict only (no floats, no tuples)."""
    if isinstance(x, (tuple, list)):
        return [_plain(y) for y in x]
    if isinstance(x, dict):
        return {str(k): _plain(v) for k, v in x.items()}
    if isinstance(x, float):
        return str(Fraction(x))
    return x


def _flat_trace(obs):
    out = []
    for ev, es in zip(obs['events'], obs['effects']):
        out.append('event:' + ev[0])
        for e in es:
            if e[0] == 'wait':                      # timeout handed to the back-off wait, exact
                out.append(['wait', '%d/%d' % (e[1], e[2])])
            else:
                out.append(_plain(e))
    out.append(['final', _plain(obs['final'])])
    return out


def parity_traces(rng, n):
    """n C10 scenarios (fault script x parameters x cause of loss x follow-up, plus random walks;
    the thread-only race switch point is never used) run on Client AND AsyncClient with the C10
    driver.  Returns [('client-reconnect', scenario_repr, trace_sync, trace_async)]; identical
    behaviour gives equal lists.  Uses only `rng`; does not touch chk."""
    grid = param_grid(rng, 12)
    scs = []
    causes = ['loss', 'loss', 'loss', 'disconnect', 'sdisc', 'sclose', 'loss-disabled']
    afters = [[], ['connect', 'loss'], ['connect', 'loss', 'timeout_ok'], ['loss'], ['shutdown', 'loss'],
              ['connect', 'loss', 'timeout_err', 'timeout_ok', 'loss']]
    for i in range(n):
        p = dict(rng.choice(grid))
        if i % 5 == 4:
            sc = random_walk(rng, gen_params(rng, reconnection=rng.random() < 0.85), rng.randrange(3, 14))
        else:
            pat = ''.join(rng.choice('EERO') for _ in range(rng.randrange(1, 6)))
            cause = rng.choice(causes)
            if cause == 'loss-disabled':
                p['reconnection'] = False
                cause = 'loss'
            ab = rng.choice([None, None, None] + list(range(len(pat) + 1)))
            sc = structured(rng, p, pat, ab, rng.choice(['shutdown', 'shutdown', 'sigint']), cause,
                            rng.choice(afters))
        for ev in sc['events']:
            if ev[0] == 'timeout':
                ev[4] = False                       # no thread-only race
        scs.append(sc)
    sync_obs = [run_sync(sc) for sc in scs]
    async_obs = run_async_many(scs)
    out = []
    for sc, a, b in zip(scs, sync_obs, async_obs):
        p = sc['params']
        rep = 'rec=%s n=%d d=%s max=%s rf=%s | %s' % (
            p['reconnection'], p['attempts'], Fraction(*p['delay']), Fraction(*p['delay_max']), Fraction(*p['rf']),
            ' '.join(ev[0] + (':' + (ev[3] if ev[0] == 'connect' else ev[2]) if ev[0] in ('connect', 'timeout') else '')
                     for ev in sc['events']))
        out.append(('client-reconnect', rep[:300], _flat_trace(a), _flat_trace(b)))
    return out
