"""C10 - client reconnection: only after accidental loss, bounded back-off and attempts.

Tie: hand model Reconnect/Reconnect.v, correspondence on fault histories run on the REAL
socketio.Client / socketio.AsyncClient over the fake engine.io clients of
drivers/fake_eio_client.py; the Coq boolean checker of Check/C10Check.v evaluates the property on
what the implementation did (waits, transport connection attempts, handler calls, final state)."""
import asyncio
import itertools
import signal
from fractions import Fraction

from vt import coqio
from vt.coqio import cbool, clist, cnat, copt
from drivers.fake_eio_client import FakeEio, FakeAsyncEio, AsyncioShim

IMPORTS = ('From Coq Require Import List ZArith QArith.\nImport ListNotations.\n'
           'From VT Require Import Base.PyVal Reconnect.Reconnect Check.C10Check.')
SIG_STALE = 'stale-reconnect-task-after-failed-effort'
SIG_WINDOW = 'loss-in-success-window-thread'

NS_NAMES = ['/', '/n1', '/n2']
TRANSPORTS = [None, ['polling'], ['websocket'], ['polling', 'websocket']]


# ------------------------------------------------------------------ values <-> tokens
def ns_name(n):
    return NS_NAMES[n]


def ns_tok(name):
    return NS_NAMES.index(name) if name in NS_NAMES else 99


def tok_int(s, prefix):
    try:
        return int(str(s)[len(prefix):]) if str(s).startswith(prefix) else 99
    except ValueError:
        return 99


def args_py(a):
    u, h, au, t, pth = a
    return dict(url='http://host%d' % u, headers={'X-H': 'h%d' % h}, auth={'token': 't%d' % au},
                transports=TRANSPORTS[t % 4], socketio_path='path%d' % pth)


def url_tok(v):
    return tok_int(v, 'http://host')


def hdr_tok(v):
    return tok_int(v.get('X-H'), 'h') if isinstance(v, dict) and len(v) == 1 else 99


def auth_tok(v):
    return tok_int(v.get('token'), 't') if isinstance(v, dict) and len(v) == 1 else 99


def tr_tok(v):
    return TRANSPORTS.index(v) if v in TRANSPORTS else 99


def path_tok(v):
    return tok_int(v, 'path')


def as_fraction(x):
    if isinstance(x, (list, tuple)):
        return Fraction(x[0], x[1])
    return Fraction(x)      # exact for int and float


def num(x):
    """Fraction -> the Python number handed to the client: int when integral, else float
    (dyadic, so the float is exact)."""
    f = as_fraction(x)
    if f.denominator == 1:
        return int(f)
    v = f.numerator / f.denominator
    assert Fraction(v) == f, 'parameter %r is not exactly representable' % (x,)
    return v


# ------------------------------------------------------------------ log -> effects
def canon_log(entries):
    """Raw log entries of the fakes / recorders -> canonical effect tuples."""
    out = []
    for e in entries:
        k = e[0]
        if k == 'random':
            out.append(('random',))
        elif k == 'wait':
            try:
                q = Fraction(e[1])
            except (TypeError, ValueError, OverflowError):
                out.append(('junk', 'wait %r' % (e[1],)))
                continue
            out.append(('wait', q.numerator, q.denominator))
        elif k == 'eio_connect':
            out.append(('eio_connect', url_tok(e[1]), hdr_tok(e[2]), tr_tok(e[3]), path_tok(e[4])))
        elif k == 'send_connect':
            out.append(('send_connect', ns_tok(e[1]), auth_tok(e[2])))
        elif k == 'send_disconnect':
            out.append(('send_disconnect', ns_tok(e[1])))
        elif k == 'eio_disconnect':
            out.append(('eio_disconnect', bool(e[1])))
        elif k == 'h':
            out.append(('h', e[1], ns_tok(e[2]), e[3]))
        elif k in ('spawn', 'task_end'):
            out.append((k, e[1]))
        elif k == 'lost':
            out.append(('lost',))
        elif k == 'result':
            out.append(('result', e[1]))
        else:
            out.append(('junk', repr(e)[:60]))
    return out


REASONS = {'client disconnect': 'RClient', 'server disconnect': 'RServer', 'transport error': 'RTransport'}
HNAMES = {'connect': 'HConnect', 'disconnect': 'HDisconnect', 'connect_error': 'HConnectError',
          '__disconnect_final': 'HFinal'}


def cq(n, d=1):
    f = Fraction(n, d)
    return '((%d) # %d)' % (f.numerator, f.denominator)


def eff_term(e):
    k = e[0]
    if k == 'random':
        return 'FRandom'
    if k == 'wait':
        return '(FWait %s)' % cq(e[1], e[2])
    if k == 'eio_connect':
        return '(FEioConnect %d %d %d %d)' % e[1:]
    if k == 'send_connect':
        return '(FSendConnect %d %d)' % e[1:]
    if k == 'send_disconnect':
        return '(FSendDisconnect %d)' % e[1]
    if k == 'eio_disconnect':
        return '(FEioDisconnect %s)' % cbool(e[1])
    if k == 'h':
        return '(FHandler %s %d %s)' % (HNAMES[e[1]], e[2], copt(REASONS.get(e[3])) if e[3] is not None else 'None')
    if k == 'spawn':
        return '(FSpawn %d)' % e[1]
    if k == 'task_end':
        return '(FTaskEnd %d Reconnected)' % e[1]       # the outcome is ghost: ignored by eff_eqb
    if k == 'lost':
        return 'FLost'
    if k == 'result':
        return '(FResult %s)' % {'ok': 'ROk', 'connection_error': 'RConnectionError',
                                 'value_error': 'RValueError'}.get(e[1], 'ROther')
    return 'FOther'


def outcome_term(o):
    if o == 'err':
        return 'OConnErr'
    return '(OReplies %s)' % clist([{'a': 'RAccept', 'r': 'RRefuse', 's': 'RSilent'}[c] for c in o])


def args_term(a):
    return '(mkArgs %d %d %d %d %d)' % tuple(a)


def event_term(ev):
    k = ev[0]
    if k == 'connect':
        return '(Connect %s %s %s)' % (args_term(ev[1]), clist([cnat(n) for n in ev[2]]), outcome_term(ev[3]))
    if k == 'loss':
        return '(Loss %s)' % cq(*ev[1])
    if k == 'disconnect':
        return 'Disconnect'
    if k == 'sdisc':
        return '(ServerDisconnect %d)' % ev[1]
    if k == 'sclose':
        return 'ServerClose'
    if k == 'shutdown':
        return 'Shutdown'
    if k == 'sigint':
        return 'Sigint'
    if k == 'timeout':
        return '(Timeout %d %s %s %s)' % (ev[1], outcome_term(ev[2]), cq(*ev[3]), cbool(ev[4]))
    raise ValueError(ev)


def params_term(p, fixed):
    return '(mkParams %s (%d)%%Z %s %s %s %s)' % (cbool(p['reconnection']), p['attempts'], cq(*p['delay']),
                                                cq(*p['delay_max']), cq(*p['rf']), cbool(fixed))


def state_term(fs):
    return '(mkObs %s %s %s %s %s %s %s %d %s)' % (
        cbool(fs['connected']), {'disconnected': 'EDisc', 'connected': 'EConn', 'disconnecting': 'EDisconnecting'}[fs['est']],
        clist([cnat(n) for n in fs['nss']]), args_term(fs['args']), clist([cnat(n) for n in fs['cns']]),
        copt(fs['rtask'], cnat), cbool(fs['aflag']), fs['rcl'], clist([cnat(i) for i in fs['live']]))


def case_term(sc, obs, fixed):
    return '(Case %s %s %s %s)' % (
        params_term(sc['params'], fixed), clist([event_term(e) for e in obs['events']]),
        clist([clist([eff_term(x) for x in es]) for es in obs['effects']]), state_term(obs['final']))


# ------------------------------------------------------------------ running a scenario
class RandShim:
    """Replaces the name `random` inside the module under test."""

    def __init__(self, log):
        self.log = log
        self.queue = []

    def random(self):
        self.log.append(('random',))
        if self.queue:
            return self.queue.pop(0)
        self.log.append(('unscripted_random',))
        return 0.5


class HookLogger:
    """client.logger: silent; a call made while `armed` and the client is connected is the
    switch point of the thread race (between connect() returning and `_reconnect_task = None`)."""

    def __init__(self):
        self.armed = None

    def _log(self, *a, **k):
        f = self.armed
        if f is not None:
            f()

    info = warning = error = exception = debug = critical = _log

    def setLevel(self, *a):
        pass


def _client_kwargs(p):
    return dict(reconnection=p['reconnection'], reconnection_attempts=p['attempts'],
                reconnection_delay=num(p['delay']), reconnection_delay_max=num(p['delay_max']),
                randomization_factor=num(p['rf']), handle_sigint=False, logger=HookLogger())


def _register(client, log):
    for name in NS_NAMES:
        for ev in ('connect', 'disconnect', 'connect_error', '__disconnect_final'):
            def h(*a, _ev=ev, _n=name):
                log.append(('h', _ev, _n, a[0] if (_ev == 'disconnect' and a) else None))
            client.on(ev, h, namespace=name)


def _final_state(client, fake, live_ids, task_id_of):
    from socketio import base_client
    ab = client._reconnect_abort
    return {
        'connected': bool(client.connected), 'est': fake.state,
        'nss': [ns_tok(n) for n in client.namespaces],
        'args': [url_tok(client.connection_url) if client.connection_url is not None else 0,
                 hdr_tok(client.connection_headers) if client.connection_headers is not None else 0,
                 auth_tok(client.connection_auth) if client.connection_auth is not None else 0,
                 tr_tok(client.connection_transports) if client.socketio_path is not None else 0,
                 path_tok(client.socketio_path) if client.socketio_path is not None else 0],
        'cns': [ns_tok(n) for n in client.connection_namespaces],
        'rtask': None if client._reconnect_task is None else task_id_of(client._reconnect_task),
        'aflag': bool(ab.flag) if ab is not None else False,
        'rcl': sum(1 for c in base_client.reconnecting_clients if c is client),
        'live': live_ids,
    }


def run_sync(sc):
    """Run a scenario on the real socketio.Client.  Returns the observation."""
    import socketio
    from socketio import base_client, client as client_mod
    from socketio import exceptions as sio_exc
    p = sc['params']
    client = socketio.Client(**_client_kwargs(p))
    fake = FakeEio()
    fake.attach(client)
    log = fake.log
    _register(client, log)
    rnd = RandShim(log)
    old_random, client_mod.random = client_mod.random, rnd
    old_osh = base_client.original_signal_handler
    effects, events = [], []
    try:
        for ev in sc['events']:
            ev = list(ev)
            start = len(log)
            k = ev[0]
            if k == 'connect':
                fake.next_outcome = ev[3]
                kw = args_py(ev[1])
                try:
                    client.connect(kw.pop('url'), namespaces=[ns_name(n) for n in ev[2]], **kw)
                    log.append(('result', 'ok'))
                except sio_exc.ConnectionError:
                    log.append(('result', 'connection_error'))
                except ValueError:
                    log.append(('result', 'value_error'))
            elif k == 'loss':
                rnd.queue = [num(ev[1])]
                fake.transport_error()
            elif k == 'disconnect':
                client.disconnect()
            elif k == 'sdisc':
                from socketio import packet
                fake.deliver(client.packet_class(packet.DISCONNECT, namespace=ns_name(ev[1])).encode())
            elif k == 'sclose':
                fake.server_close()
            elif k == 'shutdown':
                client.shutdown()
            elif k == 'sigint':
                base_client.original_signal_handler = lambda s, f: None
                base_client.signal_handler(signal.SIGINT, None)
            elif k == 'timeout':
                live = fake.live_tasks()
                fired = [False]
                if ev[1] < len(live):
                    fake.next_outcome = ev[2]
                    rnd.queue = [num(ev[3])]
                    if ev[4]:
                        def hook():
                            if client.connected and not fired[0]:
                                fired[0] = True
                                fake.transport_error()
                        client.logger.armed = hook
                    fake.drive(live[ev[1]])
                    client.logger.armed = None
                if ev[4] and not fired[0]:
                    ev[4] = False           # no switch point was reached: the race did not happen
            fake.run_new_tasks()
            fake.wake_flagged()
            rnd.queue = []
            fake.next_outcome = None
            effects.append(canon_log(log[start:]))
            events.append(ev)
        final = _final_state(client, fake, [t.tid for t in fake.live_tasks()],
                             lambda t: t.tid if hasattr(t, 'tid') else 99)
    finally:
        client_mod.random = old_random
        base_client.original_signal_handler = old_osh
        fake.kill()
        while client in base_client.reconnecting_clients:
            base_client.reconnecting_clients.remove(client)
    return {'events': events, 'effects': effects, 'final': final}


async def _run_async(sc):
    import socketio
    from socketio import base_client, async_client as client_mod
    from socketio import exceptions as sio_exc
    p = sc['params']
    client = socketio.AsyncClient(**_client_kwargs(p))
    fake = FakeAsyncEio()
    fake.attach(client)
    log = fake.log
    _register(client, log)
    rnd = RandShim(log)
    old_random, client_mod.random = client_mod.random, rnd
    old_asyncio, client_mod.asyncio = client_mod.asyncio, AsyncioShim(fake)
    old_osh = base_client.original_signal_handler
    effects, events = [], []
    try:
        for ev in sc['events']:
            ev = list(ev)
            start = len(log)
            k = ev[0]
            if k == 'connect':
                fake.next_outcome = ev[3]
                kw = args_py(ev[1])
                try:
                    await client.connect(kw.pop('url'), namespaces=[ns_name(n) for n in ev[2]], **kw)
                    log.append(('result', 'ok'))
                except sio_exc.ConnectionError:
                    log.append(('result', 'connection_error'))
                except ValueError:
                    log.append(('result', 'value_error'))
            elif k == 'loss':
                rnd.queue = [num(ev[1])]
                await fake.transport_error()
            elif k == 'disconnect':
                await client.disconnect()
            elif k == 'sdisc':
                from socketio import packet
                await fake.deliver(client.packet_class(packet.DISCONNECT, namespace=ns_name(ev[1])).encode())
            elif k == 'sclose':
                await fake.server_close()
            elif k == 'shutdown':
                await client.shutdown()
            elif k == 'sigint':
                base_client.original_signal_handler = lambda s, f: None
                base_client.signal_handler(signal.SIGINT, None)
            elif k == 'timeout':
                ev[4] = False               # no switch point between awaits in the asyncio client
                live = fake.live_tasks()
                if ev[1] < len(live):
                    fake.next_outcome = ev[2]
                    rnd.queue = [num(ev[3])]
                    gate = fake.parked.get(live[ev[1]])
                    if gate is not None and not gate.done():
                        gate.set_result(False)
            await fake.settle()
            rnd.queue = []
            fake.next_outcome = None
            effects.append(canon_log(log[start:]))
            events.append(ev)
        final = _final_state(client, fake, [t.tid for t in fake.live_tasks()],
                             lambda t: getattr(t, 'tid', 99))
    finally:
        client_mod.random = old_random
        client_mod.asyncio = old_asyncio
        base_client.original_signal_handler = old_osh
        await fake.kill()
        while client in base_client.reconnecting_clients:
            base_client.reconnecting_clients.remove(client)
    return {'events': events, 'effects': effects, 'final': final}


def run_async_many(scs):
    async def main():
        out = []
        for sc in scs:
            out.append(await _run_async(sc))
        return out
    return asyncio.run(main())


def run_async(sc):
    return run_async_many([sc])[0]
