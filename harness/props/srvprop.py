"""Thin factory for the server-side property modules (C04 C05 C06 C11 C12 C16 share the
model, the driver and the history generator; they differ in generator knobs, in the Coq
checker `<name>_eval` and in how a property failure is classified)."""
from gen import server_hist
from props import srvcommon, c03

TRUSTED = ['Coq 8.16.1 kernel + vm_compute (case evaluation)',
           'hand models Server/Server.v, Manager/Manager.v, Codec/Packet.v (tied by this correspondence)',
           'harness/drivers/srv.py: real socketio.Server / AsyncServer over real engineio Socket / AsyncSocket objects '
           'built by hand (no HTTP); engineio generate_id replaced by a counter; handlers are scripted',
           'gen/server_hist.py generator; Python->Gallina printers',
           'json.loads oracle table recorded per message; bidict; engine.io exception containment and send semantics']


def run(chk, name, knobs, n_quick, n_thorough, rule, nontrivial=None, prop_sig=None, modes=('sync', 'async'),
        tweak=None, extra_histories=()):
    rng = chk.rng
    chk.rule = rule
    chk.trusted_base = list(TRUSTED)
    chk.prove()
    n = n_thorough if chk.thorough else n_quick
    hs = list(extra_histories) + srvcommon.load_corpus(name)
    chk.extra['corpus_histories'] = len(hs)
    for _ in range(n):
        cfg, ops = server_hist.gen_history(rng, knobs)
        if tweak:
            cfg, ops = tweak(rng, cfg, ops)
        hs.append((cfg, ops))
    bad = srvcommon.run_histories(chk, name, hs, modes=modes, nontrivial=nontrivial)
    c03.report(chk, name, hs, bad, prop_sig)


def replay(chk, data, name):
    return c03.replay(chk, data, name)
