"""C09 - client events and acknowledgements: one handler, one ACK, callback once."""
from gen import client_hist
from props import c08 as common


# Client/ClientXProofs.v `witness_nested` (theorem C09_nested_model_passes_checker), replayed on the real clients
CFG_X = {'handlers': {'/': {'ev': 3}, '/a': {'ev': 5}}, 'ns_handlers': {},
         'behav': {3: {'arity': None, 'outcome': ('ret', (1, 'x'))}, 5: {'arity': 1, 'outcome': ('ret', 'n')}}}
WITNESS_NESTED = (CFG_X, [('connect', ['/', '/a'], None, False, True, False, ['0{"sid":"S0"}', '0/a,{"sid":"S1"}'], False),
                          ('emit', 'q', None, '/a', 7),
                          ('msg', '51-4["ev",{"_placeholder":true,"num":0}]'),
                          ('msg_nested', b'\x01\x02', '3/a,1["ok"]'),
                          ('msg_nested', '29["ev",1]', '2/a,3["ev",2]'),
                          ('msg', '51-["ev",{"_placeholder":true,"num":0}]'),
                          ('msg_nested', b'\x05', '51-/a,8["ev",{"_placeholder":true,"num":0}]'),
                          ('msg', b'zz')], {})


def classify(name, cfg, ops, results, code):
    i, mask = common.where(code)
    o = ops[i] if i < len(ops) else ('?',)
    return 'c09-%s-%s' % (common.clause_names(mask, common.C09_CLAUSES), o[0])


def key_fn(cfg, ops, results):
    """Non-trivial: two namespaces with the same id outstanding at some point, or an ACK that matches nothing.
    Distinct by the id / namespace collision pattern."""
    pattern = []
    nontrivial = False
    prev = None
    for o, (effs, _, d) in zip(ops, results):
        cbs = d['callbacks']
        if o[0] == 'msg_nested':
            t2 = client_hist.packet_kind(o[2])[0]
            inner = len(effs) > 1 and effs[0][0] == 'Call'
            if inner:
                nontrivial = True
            pattern.append(('nested', isinstance(o[1], bytes), t2, tuple(e[0] for e in effs)))
        elif o[0] == 'msg':
            t, ns = client_hist.packet_kind(o[1])
            if t in (3, 6):
                hit = any(e[0] == 'CbCall' for e in effs)
                before = dict((n, ids) for n, _, ids in (prev or []))
                changed = (prev is not None and [(n, ids) for n, _, ids in cbs] != [(n, ids) for n, _, ids in prev])
                if not hit and not changed:
                    nontrivial = True
                pattern.append(('ack', ns, hit, changed, sum(len(v) for v in before.values())))
            elif t in (2, 5):
                pattern.append(('ev', any(e[0] == 'Call' for e in effs), any(e[0] == 'Sent' for e in effs)))
        elif o[0] in ('emit', 'send', 'call'):
            ids = [tuple(i) for _, _, i in cbs]
            sets = [set(i) for i in ids]
            if any(a & b for x, a in enumerate(sets) for b in sets[x + 1:]):
                nontrivial = True
            pattern.append((o[0], tuple(len(i) for i in ids), tuple(e[0] for e in effs if e[0] in ('Ret', 'Raised'))))
        prev = cbs
    return tuple(pattern) if nontrivial else None


def run(chk):
    rng = chk.rng
    chk.rule = ('histories of EVENT / BINARY_EVENT / ACK / BINARY_ACK packets from the server on 1-3 namespaces (ids None, 0, any; '
                'ACK ids correct, repeated, 0, never issued, outstanding on another namespace, issued on a previous connection) '
                'interleaved with emit / send with callbacks and call() (answered or timing out) on several namespaces, with '
                'disconnects, losses and reconnects; run on Client, AsyncClient with coroutine handlers / callbacks and AsyncClient '
                'with plain ones; function handlers, catch-alls, class-based namespaces, return values None / scalars / lists / '
                'dicts / tuples / bytes; non-trivial = two namespaces with an equal id outstanding, or an ACK that matches nothing; '
                'distinct by the per-operation id / namespace pattern; plus the re-entrant scenario of Client/ClientX.v: while the '
                'handler of a text or reassembled binary event runs, the next server frame (EVENT on another namespace, ACK for an '
                'outstanding callback, second binary header) is delivered from inside the handler body; and ACK / BINARY_ACK frames whose '
                'callback re-delivers the same frame once before it returns (in the model: the frame twice in sequence)')
    chk.trusted_base = list(common.TRUSTED)
    chk.assumptions = ['reconnection=False', 'events literally named connect / connect_error / disconnect are outside the domain',
                       'application callbacks return; handlers may raise (then no ACK is owed)',
                       'call(): the fake server answers while call() waits, or never (timeout); the wait never blocks']
    chk.prove()
    n = 700 if chk.thorough else 70
    k = client_hist.Knobs(n_ops=30 if chk.thorough else 26, p_refuse=0.03, p_silent=0.01, p_always_connect=0.0, p_eio_fail=0.02,
                          p_wait=0.9, raise_p=0.08, catchall=0.35, class_ns=0.4)
    k.w.update({'event': 6, 'binary': 2.2, 'ack': 6, 'emit': 0.6, 'emit_cb': 5, 'send': 1.0, 'call': 3, 'server_disc': 0.4,
                'disconnect': 0.25, 'loss': 0.3, 'server_close': 0.15, 'reconnect': 0.1, 'bad_ns': 0.2, 'junk': 0.3,
                'second_disc': 0.0, 'nested': 3.0, 'ack_nested': 2.5})
    hs = [WITNESS_NESTED]
    for _ in range(n):
        hs.append(client_hist.gen_history(rng, k))
    for _ in range(n // 7):
        hs.append(client_hist.gen_malformed(rng, k))
    bad = common.run_histories(chk, 'c09', hs, key_fn)
    common.report(chk, 'c09', hs, bad, classify)


def replay(chk, data):
    return common.replay_common(chk, data, 'c09')
