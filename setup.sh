#!/bin/bash
# Build the whole Coq development from files on disk (offline). Run from /verif.
set -e
cd "$(dirname "$0")"
export PYTHONHASHSEED=0
/venv/bin/python harness/regen.py
cd coq
coq_makefile -f _CoqProject -o Makefile > /dev/null
timeout 3000 make -j16 2>&1 | tail -40
echo "setup done"
